#!/bin/sh
# usage: confirm_seed.sh <scratch worktree> <patch.diff> — apply in the scratch worktree, run the repo's test suite, undo.
WT="$1"; PATCH="$2"
cd "$WT" || exit 2
git checkout -- . && git apply "$PATCH" || { echo "patch does not apply"; exit 2; }
RUSTUP_TOOLCHAIN=stable CARGO_NET_OFFLINE=true timeout 3000 cargo test --workspace --no-fail-fast --offline 2>&1 | grep -E "^test result: .* [1-9][0-9]* passed|^error|FAILED" | head -5
git checkout -- .
