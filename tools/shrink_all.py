#!/usr/bin/env python3
import json,sys,subprocess,collections
pid=sys.argv[1]; eng=sys.argv[2]; flt=sys.argv[3] if len(sys.argv)>3 else ''; limit=int(sys.argv[4]) if len(sys.argv)>4 else 12
extra=sys.argv[5:] 
vs=[json.loads(l) for l in open(f'/verif/work/{pid}/violations.jsonl')]
seen=set(); n=0; shrunk_seen=set()
for v in vs:
    if v.get('sig') or not isinstance(v.get('case'),dict): continue
    c=v['case']
    if flt.startswith('!'):
        if c['dialect']==flt[1:]: continue
    elif flt and c['dialect']!=flt: continue
    key=(c['case'],c['dialect'])
    if key in seen: continue
    seen.add(key)
    try:
        r=subprocess.run(['/verif/target/harness/release/vh',eng,'--replay-case',c['case'],c['dialect'],'--shrink']+extra,capture_output=True,text=True,timeout=900)
    except subprocess.TimeoutExpired:
        print('#####',c['case'],c['dialect'],'SHRINK TIMEOUT'); continue
    out=r.stdout
    i=out.find('---- shrunk')
    body=out[i:]
    sig=body.split('\n',1)[1][:400] if '\n' in body else body
    n+=1
    print('#####',v['kind'],c['case'],c['dialect'],(v.get('error') or '')[:100])
    print(body[:1600])
    if n>=limit: break
