#!/bin/sh
# usage: run_all.sh <seed> [tier] [ids…] — run the checks one after another, one summary line each
SEED="${1:-1}"; TIER="${2:-quick}"; shift 2 2>/dev/null
IDS="${*:-C01 C02 C03 C04 C05 C06 C07 C08 C09 C10 C11 C12 C13 C14 C15 C16 C17 C18 C19 C20}"
cd /verif || exit 2
for id in $IDS; do
  T0=$(date +%s)
  VERIF_SEED=$SEED VERIF_TIER=$TIER ./check $id --tier $TIER > /tmp/run_all.$id.out 2>&1
  RC=$?
  T1=$(date +%s)
  echo "$id seed=$SEED tier=$TIER rc=$RC $((T1-T0))s $(grep -E '^\[C[0-9]+\] evaluations' /tmp/run_all.$id.out | tail -1 | cut -c1-140) $(grep -c '^VIOLATION' /tmp/run_all.$id.out) violations"
done
