#!/usr/bin/env python3
"""Apply every seeded change in turn to /repo, run the quick check of its property, undo.  Writes seeded/REGRESSION.json.
Nothing else may use /repo while this runs."""
import json, os, subprocess, sys, time
root = '/verif/seeded'
only = sys.argv[1:]
res = {}
for sid in sorted(os.listdir(root)):
    d = os.path.join(root, sid)
    if not os.path.isdir(d) or (only and sid not in only):
        continue
    meta = json.load(open(os.path.join(d, 'meta.json')))
    pid = meta['property']
    patch = os.path.join(d, 'patch.diff')
    if subprocess.run(['git', '-C', '/repo', 'status', '--porcelain', '--untracked-files=no'], capture_output=True, text=True).stdout.strip():
        print('repo dirty, stop'); sys.exit(2)
    chk = subprocess.run(['git', '-C', '/repo', 'apply', '--check', patch], capture_output=True, text=True)
    if chk.returncode != 0:
        res[sid] = {'property': pid, 'applies': False, 'note': chk.stderr.strip()[:200]}
        print(sid, 'does not apply'); continue
    subprocess.run(['git', '-C', '/repo', 'apply', patch], check=True)
    t0 = time.time()
    try:
        p = subprocess.run(['./check', pid], cwd='/verif', capture_output=True, text=True, timeout=3000)
        rc, out = p.returncode, p.stdout
    except subprocess.TimeoutExpired:
        rc, out = -999, ''
    finally:
        subprocess.run(['git', '-C', '/repo', 'checkout', '--', '.'], check=True)
    kinds = sorted(set(l.split('-', 1)[1].rsplit('.', 1)[0] for l in out.splitlines() if l.startswith('VIOLATION') and '-' in l))
    res[sid] = {'property': pid, 'applies': True, 'rc': rc, 'caught': rc == 1, 'violation_kinds': kinds[:6], 'seconds': int(time.time() - t0)}
    print(sid, res[sid], flush=True)
    json.dump(res, open(os.path.join(root, 'REGRESSION.json'), 'w'), indent=1)
print('done')
