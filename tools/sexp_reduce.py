#!/usr/bin/env python3
"""Delta-reduce a Chialisp source file while a predicate command keeps holding.
usage: sexp_reduce.py FILE 'shell predicate using {} for the candidate file'   (predicate exit 0 = still interesting)"""
import subprocess, sys, re

def tokenize(s):
    return re.findall(r'"[^"]*"|\'[^\']*\'|\(|\)|[^\s()]+', s)

def parse(tokens):
    def rd(i):
        if tokens[i] == '(':
            out = []; i += 1
            while tokens[i] != ')':
                x, i = rd(i); out.append(x)
            return out, i + 1
        return tokens[i], i + 1
    x, _ = rd(0)
    return x

def show(x):
    if isinstance(x, list):
        return '(' + ' '.join(show(y) for y in x) + ')'
    return x

def interesting(x, pred, path):
    open(path, 'w').write(show(x) + '\n')
    return subprocess.run(pred.replace('{}', path), shell=True, stdout=subprocess.DEVNULL, stderr=subprocess.DEVNULL).returncode == 0

def paths(x, pre=()):
    if isinstance(x, list):
        for i, y in enumerate(x):
            yield pre + (i,)
            yield from paths(y, pre + (i,))

def get(x, p):
    for i in p: x = x[i]
    return x

def replace(x, p, new, delete=False):
    if not p: return new
    x = list(x)
    if len(p) == 1:
        if delete: del x[p[0]]
        else: x[p[0]] = new
        return x
    x[p[0]] = replace(x[p[0]], p[1:], new, delete)
    return x

def main():
    f, pred = sys.argv[1], sys.argv[2]
    tmp = f + '.cand'
    x = parse(tokenize(open(f).read()))
    assert interesting(x, pred, tmp), "original is not interesting"
    changed = True
    while changed:
        changed = False
        for p in sorted(paths(x), key=lambda q: (len(q), q)):
            try: sub = get(x, p)
            except Exception: continue
            cands = [replace(x, p, None, delete=True)]
            if isinstance(sub, list):
                cands += [replace(x, p, '1'), replace(x, p, '()')] + [replace(x, p, y) for y in sub if isinstance(y, list)]
            for c in cands:
                if show(c) != show(x) and interesting(c, pred, tmp):
                    x = c; changed = True; break
            if changed: break
    open(f + '.min', 'w').write(show(x) + '\n')
    print(show(x))

main()
