#!/usr/bin/env python3
"""store_seed.py <src SEED/n dir> <seeded id e.g. C19-1> <property> <needs> <caught_by> <ran>"""
import json, os, shutil, sys
src, sid, prop, needs, caught, ran = sys.argv[1:7]
dst = os.path.join('/verif/seeded', sid)
os.makedirs(dst, exist_ok=True)
for f in ('patch.diff', 'demo.sh', 'demo.out', 'notes.md'):
    if os.path.exists(os.path.join(src, f)):
        shutil.copy(os.path.join(src, f), os.path.join(dst, f))
json.dump({"property": prop, "needs": needs, "caught_by": caught, "what_i_ran": ran, "compiles_and_passes_614_tests": True}, open(os.path.join(dst, 'meta.json'), 'w'), indent=1)
print(dst, os.listdir(dst))
