#!/usr/bin/env python3
import json,sys,subprocess
vs=[json.loads(l) for l in open('/verif/work/C03/violations.jsonl')]
seen=set(); n=0
for v in vs:
    if v.get('sig') or not isinstance(v.get('case'),dict): continue
    c=v['case']; key=c['case']
    if key in seen: continue
    seen.add(key)
    r=subprocess.run(['/verif/target/harness/release/vh','c03','--replay-case',c['case'],'--shrink'],capture_output=True,text=True,timeout=900)
    out=r.stdout; i=out.find('---- shrunk')
    n+=1; print('#####',v['kind'],c['case'],(v.get('error') or '')[:100]); print(out[i:][:1200])
    if n>=int(sys.argv[1]) if len(sys.argv)>1 else 8: break
