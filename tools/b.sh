#!/bin/sh
cd /verif/harness && RUSTUP_TOOLCHAIN=stable CARGO_NET_OFFLINE=true cargo build --release --offline --target-dir /verif/target/harness 2>&1 | grep -E "^(error|warning: unused variable)" -A14 | head -${1:-40}
