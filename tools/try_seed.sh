#!/bin/sh
# usage: try_seed.sh <patch.diff> <PID> [tier] — apply a seeded change to /repo, run the check, undo.
set -u
PATCH="$1"; PID="$2"; TIER="${3:-quick}"
cd /repo || exit 2
if [ -n "$(git status --porcelain --untracked-files=no)" ]; then echo "repo dirty"; exit 2; fi
git apply "$PATCH" || { echo "patch does not apply"; exit 2; }
cd /verif
VERIF_TIER=$TIER ./check "$PID" > /tmp/try_seed.out 2>&1
RC=$?
git -C /repo checkout -- .
echo "rc=$RC"; grep -E "^(VIOLATION|HELD|HARNESS|KNOWN)" /tmp/try_seed.out | cut -c1-160 | head -8; grep -E "^  " /tmp/try_seed.out | head -3 | cut -c1-400
