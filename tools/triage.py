#!/usr/bin/env python3
import json,sys,re,collections
pid=sys.argv[1]; n=int(sys.argv[2]) if len(sys.argv)>2 else 2
g=collections.defaultdict(list)
for l in open(f'/verif/work/{pid}/violations.jsonl'):
    v=json.loads(l)
    err=re.sub(r'[0-9]+','N',v.get('error','') or '')
    err=re.sub(r'\*command\*\(N\):N(-\*command\*\(N\):N)?: ','',err)[:90]
    g[(v.get('kind'),v.get('sig'),err)].append(v)
for k,vs in sorted(g.items(), key=lambda x:-len(x[1])):
    dial=collections.Counter((v.get('case') or {}).get('dialect','?') if isinstance(v.get('case'),dict) else '?' for v in vs).most_common()
    print(len(vs),k,dial)
    for v in vs[:n]:
        c=v.get('case')
        if isinstance(c,dict):
            print('   ID:',c.get('case'),c.get('dialect'))
            print('   SRC:',c.get('source','').replace('\n',' ')[:1500])
        else: print('   CASE:',c)
        print('   ERR:',(v.get('error') or '')[:300],'| args',str(v.get('args'))[:160],'| exp',str(v.get('expected',''))[:80],'| got',str(v.get('got',''))[:100])
