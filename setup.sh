#!/bin/sh
# Build the verification framework offline from files on disk only.
set -e
cd "$(dirname "$0")"
export RUSTUP_TOOLCHAIN=stable CARGO_NET_OFFLINE=true
python3 - <<'PY'
import sys, os
sys.path.insert(0, "monitors")
import driver
print("harness", round(driver.build_harness()), "s")
print("bins", round(driver.build_bins()), "s")
print("py", round(driver.build_py()), "s")
PY
