#!/usr/bin/env python3
"""Regenerates MANIFEST.json from monitors/manifest_data.py (kept in one place so it stays valid)."""
import json, sys, os
sys.path.insert(0, os.path.join(os.path.dirname(os.path.abspath(__file__)), "monitors"))
import manifest_data
json.dump(manifest_data.manifest(), open(os.path.join(os.path.dirname(os.path.abspath(__file__)), "MANIFEST.json"), "w"), indent=1)
print("ok")
