import fcntl
import json
import os
import shutil
import subprocess
import sys
import time
from concurrent.futures import ThreadPoolExecutor

ROOT = os.path.dirname(os.path.dirname(os.path.abspath(__file__)))
REPO = "/repo"
TARGET = os.path.join(ROOT, "target")
VH = os.path.join(TARGET, "harness", "release", "vh")
BINS_DIR = os.path.join(TARGET, "repo-bins")
PY_DIR = os.path.join(TARGET, "repo-py")
PYMOD_DIR = os.path.join(TARGET, "pymod")
WORK = os.path.join(ROOT, "work")
NCPU = os.cpu_count() or 8

ENV = dict(os.environ)
ENV.update(
    {
        "RUSTUP_TOOLCHAIN": "stable",
        "CARGO_NET_OFFLINE": "true",
        "CARGO_TERM_COLOR": "never",
        "RUST_BACKTRACE": "0",
        "VH_REPO_BINS": os.path.join(BINS_DIR, "release"),
    }
)


class HarnessError(Exception):
    pass


def log(msg):
    print(msg, flush=True)


# --------------------------------------------------------------------------------------------
# builds (always from /repo's current working tree; cargo decides what is stale)


class _Lock:
    def __init__(self, name):
        os.makedirs(TARGET, exist_ok=True)
        self.path = os.path.join(TARGET, name + ".lock")

    def __enter__(self):
        self.f = open(self.path, "w")
        fcntl.flock(self.f, fcntl.LOCK_EX)

    def __exit__(self, *a):
        fcntl.flock(self.f, fcntl.LOCK_UN)
        self.f.close()


def _cargo(args, cwd, what):
    t0 = time.time()
    p = subprocess.run(
        ["cargo"] + args, cwd=cwd, env=ENV, stdout=subprocess.PIPE, stderr=subprocess.STDOUT, text=True
    )
    if p.returncode != 0:
        tail = "\n".join(p.stdout.splitlines()[-40:])
        raise HarnessError(f"build of {what} failed:\n{tail}")
    return time.time() - t0


def build_harness():
    with _Lock("harness"):
        return _cargo(["build", "--release", "--offline", "-q", "--target-dir", os.path.join(TARGET, "harness")], os.path.join(ROOT, "harness"), "harness (vh)")


def build_bins():
    """The real CLI binaries (run, brun, cldb, opc, opd, repl) as shipped: plain release."""
    with _Lock("bins"):
        return _cargo(
            ["build", "--release", "--offline", "-q", "--bins", "--manifest-path", os.path.join(REPO, "Cargo.toml"), "--target-dir", BINS_DIR],
            ROOT,
            "repo binaries",
        )


def repo_bin(name):
    return os.path.join(BINS_DIR, "release", name)


def build_py():
    """The real Python extension module, imported as `chialisp` by /usr/bin/python3."""
    with _Lock("py"):
        t = _cargo(
            [
                "build",
                "--release",
                "--offline",
                "-q",
                "--lib",
                "--features",
                "extension-module",
                "--manifest-path",
                os.path.join(REPO, "Cargo.toml"),
                "--target-dir",
                PY_DIR,
            ],
            ROOT,
            "python extension",
        )
        os.makedirs(PYMOD_DIR, exist_ok=True)
        src = os.path.join(PY_DIR, "release", "libchialisp.so")
        dst = os.path.join(PYMOD_DIR, "chialisp.so")
        if not os.path.exists(dst) or os.path.getmtime(dst) < os.path.getmtime(src):
            shutil.copyfile(src, dst + ".tmp")
            os.replace(dst + ".tmp", dst)
        return t


# --------------------------------------------------------------------------------------------
# shard execution


def run_vh(engine, shard, nshards, seed, tier, outdir, extra=(), timeout=3600):
    cmd = [VH, engine, "--shard", str(shard), "--nshards", str(nshards), "--seed", str(seed), "--tier", tier, "--out", outdir] + list(extra)
    t0 = time.time()
    try:
        p = subprocess.run(cmd, stdout=subprocess.PIPE, stderr=subprocess.PIPE, text=True, timeout=timeout, env=ENV, cwd=outdir)
        rc, so, se = p.returncode, p.stdout, p.stderr
    except subprocess.TimeoutExpired as e:
        rc, so, se = -999, (e.stdout or b"").decode("utf8", "replace") if isinstance(e.stdout, bytes) else (e.stdout or ""), "TIMEOUT"
    return {"shard": shard, "rc": rc, "stdout": so, "stderr": se[-4000:], "wall": time.time() - t0, "cmd": cmd}


def fan_out(engine, nshards, seed, tier, outdir, extra=(), timeout=3600, parallel=None):
    os.makedirs(outdir, exist_ok=True)
    with ThreadPoolExecutor(max_workers=parallel or min(NCPU, nshards)) as ex:
        futs = [ex.submit(run_vh, engine, s, nshards, seed, tier, outdir, extra, timeout) for s in range(nshards)]
        return [f.result() for f in futs]


def load_summaries(outdir, results, engine, crash_ok=False):
    """Read the per-shard summaries; a shard that did not finish is a harness error unless the engine
    is crash-tolerant (then the death is judged by the caller from the event log)."""
    sums = []
    dead = []
    for r in results:
        p = os.path.join(outdir, f"{r['shard']}.summary.json")
        if os.path.exists(p):
            with open(p) as f:
                sums.append(json.load(f))
        else:
            dead.append(r)
    if dead and not crash_ok:
        d = dead[0]
        raise HarnessError(f"engine {engine} shard {d['shard']} died rc={d['rc']} without a summary; stderr tail:\n{d['stderr'][-1500:]}")
    return sums, dead


def merge(sums):
    m = {"counters": {}, "sets": {}, "samples": [], "violations": [], "inconclusive": [], "distinct": set(), "extra": {}}
    for s in sums:
        for k, v in s.get("counters", {}).items():
            m["counters"][k] = m["counters"].get(k, 0) + v
        for k, v in s.get("sets", {}).items():
            m["sets"].setdefault(k, set()).update(v)
        m["samples"].extend(s.get("samples", []))
        m["violations"].extend(s.get("violations", []))
        m["inconclusive"].extend(s.get("inconclusive", []))
        m["distinct"].update(s.get("distinct", []))
        for k, v in s.get("extra", {}).items():
            if isinstance(v, (int, float)) and isinstance(m["extra"].get(k), (int, float)):
                m["extra"][k] = max(m["extra"][k], v)
            else:
                m["extra"].setdefault(k, v)
    return m


def merge_into(a, b):
    """merge b (already merged form) into a"""
    for k, v in b["counters"].items():
        a["counters"][k] = a["counters"].get(k, 0) + v
    for k, v in b["sets"].items():
        a["sets"].setdefault(k, set()).update(v)
    a["samples"].extend(b["samples"])
    a["violations"].extend(b["violations"])
    a["inconclusive"].extend(b["inconclusive"])
    a["distinct"].update(b["distinct"])
    for k, v in b["extra"].items():
        a["extra"].setdefault(k, v)
    return a


def empty_summary():
    """a shard summary with nothing in it (a shard that never reached its first checkpoint)"""
    return {"counters": {}, "sets": {}, "samples": [], "violations": [], "inconclusive": [], "distinct": [], "extra": {}, "complete": False}


def empty_merge():
    return {"counters": {}, "sets": {}, "samples": [], "violations": [], "inconclusive": [], "distinct": set(), "extra": {}}


# --------------------------------------------------------------------------------------------
# known findings


def load_findings(pid):
    p = os.path.join(ROOT, "known_findings.json")
    if not os.path.exists(p):
        return []
    with open(p) as f:
        data = json.load(f)
    return [x for x in data.get("findings", []) if x.get("property") == pid and x.get("status") == "known"]


def attribute(violations, findings):
    """A violation is attributed to a listed finding only when its exact signature (`sig`, computed
    narrowly by the engine from the failing input / call site, after any counterfactual re-run) is one
    the finding lists.  Everything else stays a violation."""
    hits = {f["id"]: [] for f in findings}
    rest = []
    for v in violations:
        sig = v.get("sig")
        owner = None
        if sig is not None:
            for f in findings:
                if sig in f.get("sigs", []):
                    owner = f
                    break
        if owner is None:
            rest.append(v)
        else:
            hits[owner["id"]].append(v)
    return hits, rest


# --------------------------------------------------------------------------------------------
# plans: which engines make up the check of each property

import plans  # noqa: E402


def main(argv):
    if not argv:
        print(__doc__ or "usage: check <id>")
        return 2
    pid = argv[0].upper()
    tier = os.environ.get("VERIF_TIER", "quick")
    seed = int(os.environ.get("VERIF_SEED", "1"))
    replay = None
    i = 1
    while i < len(argv):
        if argv[i] == "--tier":
            tier = argv[i + 1]
            i += 2
        elif argv[i] == "--seed":
            seed = int(argv[i + 1])
            i += 2
        elif argv[i] == "--replay":
            replay = argv[i + 1]
            i += 2
        else:
            i += 1
    if pid not in plans.PLANS:
        print(f"no check registered for {pid}")
        return 2
    plan = plans.PLANS[pid]
    t0 = time.time()
    try:
        bt = build_harness()
        needs = plan.get("needs", [])
        if "bins" in needs:
            bt += build_bins()
        if "py" in needs:
            bt += build_py()
        log(f"[{pid}] build ok ({bt:.0f}s) tier={tier} seed={seed}")
        if replay:
            return plans.replay(pid, plan, replay)
        outroot = os.path.join(WORK, pid)
        shutil.rmtree(outroot, ignore_errors=True)
        os.makedirs(outroot, exist_ok=True)
        ctx = {"pid": pid, "tier": tier, "seed": seed, "outroot": outroot, "thorough": tier == "thorough"}
        merged = empty_merge()
        for stage in plan["stages"]:
            st0 = time.time()
            m = stage(ctx)
            merge_into(merged, m)
            log(f"[{pid}] stage {stage.__name__}: evaluations={m['counters'].get('evaluations', 0)} violations={len(m['violations'])} ({time.time() - st0:.0f}s)")
    except HarnessError as e:
        log(f"HARNESS-ERROR property={pid} {e}")
        return 2

    try:
        with open(os.path.join(WORK, pid, "violations.jsonl"), "w") as f:
            for v in merged["violations"]:
                f.write(json.dumps(v) + "\n")
        with open(os.path.join(WORK, pid, "inconclusive.jsonl"), "w") as f:
            for v in merged["inconclusive"]:
                f.write(json.dumps(v) + "\n")
    except OSError:
        pass
    findings = load_findings(pid)
    hits, rest = attribute(merged["violations"], findings)
    for f in findings:
        if hits[f["id"]]:
            log(f"KNOWN-FINDING: property={pid} {f['id']}: {f['what']} (reproduced {len(hits[f['id']])}x this run)")
        else:
            log(f"NOTE: property={pid} listed finding {f['id']} was not reproduced by this run")
    # write replay files
    rdir = os.path.join(ROOT, "replay", pid)
    shutil.rmtree(rdir, ignore_errors=True)
    lines = []
    seen_kinds = {}
    for n, v in enumerate(rest):
        k = v.get("kind", "?")
        seen_kinds[k] = seen_kinds.get(k, 0) + 1
        if seen_kinds[k] > 5 and len(lines) >= 5:
            continue  # keep the output readable: at most 5 replays per kind
        os.makedirs(rdir, exist_ok=True)
        path = os.path.join(rdir, f"{n:04d}-{k}.json")
        with open(path, "w") as f:
            json.dump({"property": pid, "tier": tier, "seed": seed, "violation": v}, f, indent=1)
        lines.append(f"VIOLATION property={pid} replay={path}")
        log(f"  {k}: {json.dumps(v)[:700]}")
    wall = time.time() - t0
    ev = plans.evidence(pid, plan, merged, tier, seed, wall, len(rest), {k: len(v) for k, v in hits.items()})
    os.makedirs(os.path.join(ROOT, "evidence"), exist_ok=True)
    with open(os.path.join(ROOT, "evidence", f"{pid}.json"), "w") as f:
        json.dump(ev, f, indent=1, sort_keys=True)
    cov = ev["coverage"]
    log(f"[{pid}] evaluations={cov['evaluations']} distinct_nontrivial={cov['distinct_nontrivial']} inconclusive={cov.get('inconclusive', 0)} violations={len(rest)} known_hits={sum(len(v) for v in hits.values())} wall={wall:.0f}s")
    for l in lines:
        log(l)
    if rest:
        return 1
    minimum = plan.get("min_nontrivial", 2)
    if cov["distinct_nontrivial"] < minimum:
        log(f"HARNESS-ERROR property={pid} no evidence: only {cov['distinct_nontrivial']} distinct non-trivial cases observed (< {minimum})")
        return 2
    log(f"HELD property={pid} on everything observed")
    return 0
