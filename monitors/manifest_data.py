import json, os

ROOT = os.path.dirname(os.path.dirname(os.path.abspath(__file__)))

CHECKS = {
    "C05": dict(
        category="exploration",
        text="History-independence runtime monitor: the same target is compiled repeatedly in one process after random histories (including failing compilations) and forced values of the public fresh-name counter, in fresh processes (new hash seeds) and by concurrent threads; every observation (bytes, symbol table) must equal the first, and the per-thread integer-conversion mode must be restored after every compilation.",
        design_ref="DESIGN.md §4 C05",
        note="hash seeds are varied by repetition, not chosen",
        technique="runtime monitoring of recorded compilation histories (metamorphic: history/process/thread independence)",
    ),
    "C11": dict(
        category="exploration",
        text="Differential runtime monitor across the real entry points: for generated programs (with and without include files on a search path, every dialect) the bytes emitted by compile_clvm_text, file-to-file compile_clvm, the CLI derivation with -O, the real Python extension (compile, compile_clvm), and the real `run -O` binary (re-assembled by the real opc) must be identical; the real `cldb -t` must have compiled the program whose tree hash `run` emits with the same flags.",
        design_ref="DESIGN.md §4 C11",
        note="WASM glue not executed (no wasm target/node in the image)",
        technique="runtime differential monitoring across entry points (in-process, subprocess binaries, Python extension)",
    ),
    "C12": dict(
        category="exploration",
        text="Runtime trace monitor on the stepping debugger: every generated compiled program / random raw CLVM program is stepped to the end through CldbRun, cldb_hierarchy and the hex route; every emitted row is judged online against clvmr (operator applied to the reported arguments gives the reported value), row numbering, final value / failure entry against the consensus result, hex vs source rows; a sample is repeated through the real cldb binary (-x, -x -t) whose YAML must equal the judged rows.",
        design_ref="DESIGN.md §4 C12",
        note="rows of the apply operator have no Arguments field and are outside the per-row clause; one listed finding (i rows)",
        technique="runtime trace monitoring against a reference evaluator (online row oracle) + differential against the real binary",
    ),
    "C13": dict(
        category="exploration",
        text="Runtime monitor on the reported symbol table of every build of generated programs: each function entry whose hash occurs in the emitted program is resolved to its code (own subtree search and the repository's path_to_function/rewrite_in_program route), the code is executed with clvmr on generated argument lists and compared with an independent reference interpretation of the named source function; argument-list entries are compared with the source; unoptimised builds are checked for an entry per reachable non-inline function; classic tables come from the real run binary.",
        design_ref="DESIGN.md §4 C13",
        note="compiler-synthesised functions are checked for code presence only",
        technique="runtime monitoring with a reference-model oracle over extracted function code",
    ),
    "C17": dict(
        category="exploration",
        text="Non-interference runtime monitor: the unused-argument report (check_unused, as printed by run --check-unused-args) of generated programs with parameters in 13 usage modes is tested against executions of the compiled program: for every parameter reported unused, pairs of argument trees differing in that parameter alone (7 replacement shapes x several base trees) are run with clvmr and must return the same value or both fail.",
        design_ref="DESIGN.md §4 C17",
        note="one listed finding: the check's evaluator is lazier than compiled code (discarded argument expressions)",
        technique="runtime non-interference monitoring over argument pairs (differential executions under the consensus evaluator)",
    ),
    "C10": dict(
        category="exploration",
        text="Fault-injection runtime monitor on the compiler front door: every generated well-scoped program (twin compiles) gets one scoping defect at a time (unbound name at a random variable position, duplicate function, inline cycle of length 1..4, cyclic or duplicate assign bindings); each defective program is compiled under a per-case watchdog in crash-isolated shards and must be rejected with an error that names the defect; compiled output, a panic, a dead process or a confirmed non-termination is a violation.",
        design_ref="DESIGN.md §4 C10",
        note="listed findings: unbound names / inline self calls in code discarded before code generation, duplicate definitions nothing reaches, two misleading messages",
        technique="runtime monitoring with injected scoping faults (differential against the repaired twin), watchdog + crash isolation",
    ),
    "C16": dict(
        category="exploration",
        text="Reference-model runtime monitor on REPL sessions: definitions of generated programs are entered line by line into a Repl configured like the repl binary, then closed expressions (parameters bound to quoted argument values, two binding forms) and the open expression; every quoted-constant answer is compared with the clvmr result of the program compiled from the same definitions and expression, every residual is compiled and run against the original on all generated argument trees.",
        design_ref="DESIGN.md §4 C16",
        note="two listed findings (let-bound / free variables inside conditional branches)",
        technique="runtime differential monitoring of the partial evaluator against compile+consensus execution",
    ),
    "C18": dict(
        category="exploration",
        text="Runtime monitor at two boundaries: the dependency listing of the real `run -M` / Python check_dependencies is compared with the files a real compilation of the same generated include graph actually opens (strace openat log), for random graphs, shadowed duplicates, embed-file kinds, dialects and search-path orders.",
        design_ref="DESIGN.md §4 C18",
        note="the strace log is the ground truth of what was read",
        technique="runtime monitoring: syscall-level observation vs reported listing",
    ),
    "C19": dict(
        category="fault_enumeration",
        text="System-call level fault and crash enumeration with strace on the real file-to-file entry points (Rust and the real Python extension): SIGKILL before every system call of the output-writing window, errno injection at every call, an audit of the trace (rename-only replacement from a completely written sibling), and concurrent writers/readers with injected delays. All crash points of the traced runs are enumerated, not sampled.",
        design_ref="DESIGN.md §4 C19",
        note="POSIX rename on the sandbox file system; no power-loss durability claim; the guarded crash-point hook suggested by the property was not needed (strace reaches every point)",
        technique="syscall-level crash-point and fault enumeration (strace --inject) + trace audit + race workload",
    ),
    "C14": dict(
        category="exploration",
        text="Robustness runtime monitor: mutated programs (token and byte level), shipped sources, token soup and random bytes go through every tool entry point in crash-isolated shard processes with an 8 MiB stack; panics are caught and located, a dead process is blamed on the input whose BEGIN marker has no END, a watchdog stop is confirmed by an isolated re-run with a larger budget before it counts as non-termination; modern compile errors must lie inside the text they name.",
        design_ref="DESIGN.md §4 C14",
        note="inputs up to 6 KiB and nesting <= 200; REPL locations not bounds-checked",
        technique="runtime fault monitoring under hostile inputs (panic hooks, process supervision, gdb stack signatures)",
    ),
    "C15": dict(
        category="exploration",
        text="Runtime monitor of the reader's source locations against layouts the harness generates itself (so every token span is known): exact leaf spans, list containment, bytewise parser == whole parser including locations, in-bounds error locations on mutants.",
        design_ref="DESIGN.md §4 C15",
        note="tab-free layouts; #( structured lists only in the bytewise==whole stratum",
        technique="runtime invariant monitoring with generated ground truth",
    ),
    "C03": dict(
        category="exploration",
        text="Reference-model runtime monitor for the classic compiler: a 1..40-parameter sweep and random sigil-free programs are compiled by compile_clvm_text, run by clvmr and compared with the reference interpreter; the cl21 build of the same text is a second oracle on the shared subset.",
        design_ref="DESIGN.md §4 C03",
        note="trusts clvmr and the reference interpreter; one-directional",
        technique="runtime monitoring against an executable reference model + differential (classic vs cl21)",
    ),
    "C02": dict(
        category="exploration",
        text="Metamorphic + reference-model runtime monitor: each generated program is built under 8 option sets (optimize / frontend_opt / post-optimiser on and off, the library path, CLI -O) per dialect; every build is run by clvmr on generated arguments and must return the reference value whenever the reference returns one, so any two builds agree and no switch loses a value. Whole (dialect, switch) combinations that are listed known findings are attributed only when the all-switches-off build of the same program is clean.",
        design_ref="DESIGN.md §4 C02",
        note="trusts clvmr and the reference interpreter; shipped programs are exercised in C05/C11",
        technique="runtime metamorphic monitoring across build configurations against a reference model",
    ),
    "C01": dict(
        category="exploration",
        text="Reference-model runtime monitor: randomly generated well-scoped programs (typed AST owned by the harness, rendered per dialect) and a 1..40-parameter sweep are compiled by the real compiler exactly as the CLI does, the output is run by clvmr on generated argument trees, and every result is compared with an independent call-by-value reference interpreter that delegates operators to clvmr. Listed known findings are re-established by pinned witnesses through the real binaries.",
        design_ref="DESIGN.md §3.1, §3.2, §4 C01",
        note="trusts clvmr and the ~400-line reference interpreter; one-directional (only when the reference returns a value)",
        technique="runtime monitoring against an executable reference model (random + systematic workloads)",
    ),
    "C07": dict(
        category="exploration",
        text="Runtime monitor over the real conversion and hashing functions: round trip and three-way tree-hash agreement for every atom up to 2 (quick) / 3 (thorough) bytes and random hostile trees in both integer modes; all-pairs equality/hash consistency over pools of colliding spellings obtained from the real reader and the real converter.",
        design_ref="DESIGN.md §4 C07",
        note="trusts clvmr serde/tree hash and sha2",
        technique="runtime invariant monitoring (bounded-exhaustive + random) against clvmr",
    ),
    "C08": dict(
        category="exploration",
        text="Differential runtime monitor of sexp_to_stream/sexp_from_stream against clvmr's serialiser and deserialiser: all length-class boundaries, random trees, every byte string up to 2/3 bytes as decoder input, systematic truncations and prefix mutations.",
        design_ref="DESIGN.md §4 C08",
        note="trusts clvmr node_to_bytes/node_from_bytes",
        technique="runtime differential monitoring against clvmr serde",
    ),
    "C09": dict(
        category="exploration",
        text="Round-trip runtime monitor over the real printers and readers: classic disassemble->assemble for operator-set versions 0,1,2 and modern print->parse_sexp / ->assemble in the fixed integer mode, for every atom up to 2 bytes (3 over an alphabet) in four syntactic positions and random trees; compiler outputs are re-read as part of C11.",
        design_ref="DESIGN.md §4 C09",
        note="byte comparison through clvmr serialisation",
        technique="runtime round-trip monitoring (bounded-exhaustive + random)",
    ),
    "C04": dict(
        category="exploration",
        text="Differential runtime monitor: for exhaustively enumerated small CLVM trees/expressions, targeted path-arithmetic families and random large trees, whenever clvmr evaluates R in E to v the real optimize_sexp and run_optimizer must accept R and clvmr must evaluate their output in E to v. Exhaustive only inside the stated node bounds; random beyond.",
        design_ref="DESIGN.md §4 C04",
        note="trusts clvmr 0.16.2 as the meaning of CLVM; environments are synthesised so that the paths used resolve",
        technique="runtime differential monitoring against clvmr (bounded-exhaustive + random workloads)",
    ),
    "C06": dict(
        category="exploration",
        text="Differential runtime monitor: the real stepping evaluator (compiler::clvm::run) and clvmr run the same program/environment, for exhaustively enumerated small trees and grammar expressions, random hostile trees over the full operator set, several atom spellings and both integer modes; values must be byte-identical and failures must coincide.",
        design_ref="DESIGN.md §4 C06",
        note="trusts clvmr 0.16.2; step limit / cost cap hits are reported as inconclusive",
        technique="runtime differential monitoring against clvmr (bounded-exhaustive + random workloads)",
    ),
    "C20": dict(
        category="exploration",
        text="Exhaustive run-time comparison of the finite operator tables (classic v0/v1/v2, modern prims, harness copy of the CLVM spec numbering), every opcode 0..255 and the 4-byte secp opcodes through disassemble/assemble, and one single-operator program per name through every compiler route, run by clvmr and by the stepping evaluator. The space is finite and enumerated completely on each run.",
        design_ref="DESIGN.md §4 C20",
        note="trusts clvmr 0.16.2 and the harness' copy of the CLVM operator numbering",
        technique="runtime monitor: exhaustive table cross-check + differential execution against clvmr",
    ),
}

def manifest():
    props = [json.loads(l)["id"] for l in open(os.path.join(ROOT, "properties.jsonl"))]
    checks = []
    for pid in props:
        if pid not in CHECKS:
            continue
        c = CHECKS[pid]
        checks.append({
            "property_id": pid,
            "quick_cmd": f"./check {pid} --tier quick",
            "thorough_cmd": f"./check {pid} --tier thorough",
            "evidence_file": f"/verif/evidence/{pid}.json",
            "replay_cmd_template": f"./check {pid} --replay {{path}}",
            "engine": "vh",
            "level_claimed": {"category": c["category"], "text": c["text"], "design_ref": c["design_ref"]},
            "level_note": c["note"],
            "technique": c["technique"],
        })
    na = [{"property_id": p, "reason": "check not built yet in this round (work in progress; see DESIGN.md §4 for the planned monitor)"} for p in props if p not in CHECKS]
    return {
        "version": 1,
        "setup_cmd": "./setup.sh",
        "hooks": {
            "guard": "chialisp_verif",
            "enable": "no hooks are compiled into /repo; observability comes from public API, the real binaries/extension and strace at the system-call boundary",
            "baseline_off_cmd": "cd /repo && RUSTUP_TOOLCHAIN=stable CARGO_NET_OFFLINE=true cargo test --workspace --no-fail-fast --offline",
            "source_commits": [],
            "add_only": True,
        },
        "engines": [
            {"name": "vh", "path": "/verif/harness", "serves_properties": sorted(CHECKS), "kind_free_text": "Rust workload/monitor harness linking the real chialisp crate from /repo (path dependency, rebuilt on every check)"},
            {"name": "driver", "path": "/verif/monitors", "serves_properties": sorted(CHECKS), "kind_free_text": "python3 driver: builds, shards, offline monitors over event logs and strace logs, known-finding attribution, evidence"},
        ],
        "checks": checks,
        "not_applicable": na,
        "notes": "Technique family: runtime monitoring. Every check rebuilds from /repo's working tree (cargo path dependency / --manifest-path /repo/Cargo.toml).",
    }
