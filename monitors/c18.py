"""C18 — the dependency listing names every file a compilation reads.

Workload: generated include graphs in scratch trees (plain includes, includes that include,
embed-file bin/hex/sexp, the same file name in several search directories, files only reachable
through other includes) x search-path orders x dialects.  Events: the listing printed by the real
`run -M` (and by the real Python binding's check_dependencies), and the files actually opened by
a real compilation of the same program, observed with strace at the openat boundary."""
import json
import os
import random
import re
import shutil
import subprocess

import driver as D

SIGILS = [None, "*standard-cl-21*", "*strict-cl-21*", "*standard-cl-22*", "*standard-cl-23*", "*standard-cl-23.1*", "*standard-cl-24*"]
OPEN = re.compile(r'^\d+\s+openat\(AT_FDCWD, "([^"]+)", ([A-Z_|]+)[^)]*\)\s+=\s+(\d+)')


def gen_case(rng, root, idx):
    """Returns dict(main=path, dirs=[search order], expect_used=set of files that define used names)."""
    base = os.path.join(root, f"case{idx}")
    shutil.rmtree(base, ignore_errors=True)
    ndirs = rng.randint(1, 3)
    dirs = [os.path.join(base, f"d{i}") for i in range(ndirs)]
    for d in dirs:
        os.makedirs(d)
    sigil = rng.choice(SIGILS)
    nlibs = rng.randint(0, 5)
    # file names: some are a byte suffix of another (my_lib0.clinc / lib0.clinc) or the same base name in a
    # sub-directory (sub/lib0.clinc), so a resolver or a bookkeeping set that compares names loosely shows
    libs = []
    for k in range(nlibs):
        name = f"lib{k}.clinc"
        r = rng.random()
        if k > 0 and r < 0.25:
            cand = "my_" + libs[rng.randrange(k)].split("/")[-1]
            name = cand if cand not in libs else name
        elif k > 0 and r < 0.4:
            cand = "sub/" + libs[rng.randrange(k)].split("/")[-1]
            name = cand if cand not in libs else name
        libs.append(name)
    # include edges: lib k may include libs with a larger index (acyclic), depth up to 4
    # (a tree: every library is included from at most one place, a second inclusion would redefine its names)
    claimed = set()
    edges = {}
    for k in range(nlibs):
        kids = [j for j in range(k + 1, nlibs) if j not in claimed and rng.random() < 0.45][:2]
        claimed.update(kids)
        edges[k] = kids
    embeds = []  # (owner: -1 main / k lib, const name, kind, file name)
    for e in range(rng.randint(0, 3)):
        kind = rng.choice(["bin", "hex", "sexp"])
        owner = rng.choice([-1] + list(range(nlibs))) if nlibs else -1
        fname = f"data{e}.{kind if kind != 'bin' else 'dat'}"
        if embeds and rng.random() < 0.3:
            prev = embeds[rng.randrange(len(embeds))]
            cand = "more_" + prev[3]
            if prev[2] == kind and all(cand != x[3] for x in embeds):
                fname = cand
        embeds.append((owner, f"EMB{e}", kind, fname))
    # place every lib and data file in 1..2 directories; a shadowed copy further down the path has
    # different contents (a different constant value), so a wrong resolution is observable
    placed = {}
    order = dirs[:]
    rng.shuffle(order)
    for k, name in enumerate(libs):
        homes = rng.sample(order, min(len(order), rng.choice([1, 1, 2])))
        placed[name] = homes
        for d in homes:
            tag = 1000 * (order.index(d) + 1) + k
            body = [f"(defconstant LIB{k}_TAG {tag})", f"(defun lib{k}_f (X) (+ X LIB{k}_TAG))"]
            for j in edges[k]:
                body.append(f"(include {libs[j]})")
            for (owner, cname, kind, fname) in embeds:
                if owner == k:
                    body.append(f"(embed-file {cname} {kind} {fname})")
            os.makedirs(os.path.dirname(os.path.join(d, name)), exist_ok=True)
            with open(os.path.join(d, name), "w") as f:
                f.write("(\n  " + "\n  ".join(body) + "\n)\n")
    for (owner, cname, kind, fname) in embeds:
        homes = rng.sample(order, min(len(order), rng.choice([1, 1, 2])))
        placed[fname] = homes
        for d in homes:
            t = order.index(d) + 1
            with open(os.path.join(d, fname), "w") as f:
                if kind == "bin":
                    f.write(f"binary-data-{t}")
                elif kind == "hex":
                    f.write(f"ff0{t}80")
                else:
                    f.write(f"({t} 2 3)")
    roots = [k for k in range(nlibs) if not any(k in v for v in edges.values())]
    direct = [k for k in roots if rng.random() < 0.8] or (roots[:1] if roots else [])
    forms = []
    if sigil:
        forms.append(f"(include {sigil})")
    for k in direct:
        forms.append(f"(include {libs[k]})")
    for (owner, cname, kind, fname) in embeds:
        if owner == -1:
            forms.append(f"(embed-file {cname} {kind} {fname})")
    calls = " ".join(f"(lib{k}_f X)" for k in direct) or "X"
    body = f"(+ 1 {calls})" if direct else "(+ X 1)"
    main = os.path.join(base, "main.clsp")
    with open(main, "w") as f:
        f.write("(mod (X)\n  " + "\n  ".join(forms) + f"\n  {body}\n)\n")
    return {"base": base, "main": main, "order": order, "sigil": sigil, "libs": libs, "edges": edges, "embeds": embeds, "placed": placed, "direct": direct}


def rel_name(order, path):
    """the name by which a file below one of the search directories is looked up (may contain a sub-directory)"""
    for d in order:
        dn = os.path.normpath(d) + os.sep
        if os.path.normpath(path).startswith(dn):
            return os.path.normpath(path)[len(dn):]
    return os.path.basename(path)


def first_match(order, name):
    for d in order:
        p = os.path.join(d, name)
        if os.path.exists(p):
            return p
    return None


def listing_cli(case):
    cmd = [D.repo_bin("run"), "-M"]
    for d in case["order"]:
        cmd += ["-i", d]
    cmd.append(case["main"])
    p = subprocess.run(cmd, cwd=case["base"], stdout=subprocess.PIPE, stderr=subprocess.PIPE, text=True, timeout=120)
    lines = [l.strip() for l in p.stdout.splitlines() if l.strip()]
    # an error of the listing itself is printed on stdout as "<file>(line):col…: message"
    errs = [l for l in lines if re.search(r"\(\d+\):\d+.*: ", l) or l.startswith("FAIL")]
    if errs:
        return 1, [], errs[0]
    return p.returncode, lines, p.stderr


def listing_py(case):
    code = "import sys, json, chialisp; print(json.dumps(sorted(chialisp.check_dependencies(sys.argv[1], sys.argv[2:]))))"
    env = dict(D.ENV)
    env["PYTHONPATH"] = D.PYMOD_DIR
    p = subprocess.run(["/usr/bin/python3", "-c", code, case["main"]] + case["order"], cwd=case["base"], env=env, stdout=subprocess.PIPE, stderr=subprocess.PIPE, text=True, timeout=120)
    if p.returncode != 0:
        return None, p.stderr[-300:]
    try:
        return json.loads(p.stdout.strip().splitlines()[-1]), None
    except Exception as e:
        return None, f"{e}: {p.stdout[-200:]}"


def reads_of_compile(case, how):
    trace = os.path.join(case["base"], f"{how}.trace")
    if how == "cli":
        cmd = [D.repo_bin("run"), "--symbol-output-file", os.path.join(case["base"], "main.sym")]
        for d in case["order"]:
            cmd += ["-i", d]
        cmd.append(case["main"])
        env = dict(D.ENV)
    else:
        code = "import sys, chialisp; chialisp.compile_clvm(sys.argv[1], sys.argv[2], sys.argv[3:])"
        cmd = ["/usr/bin/python3", "-c", code, case["main"], os.path.join(case["base"], "out.hex")] + case["order"]
        env = dict(D.ENV)
        env["PYTHONPATH"] = D.PYMOD_DIR
    p = subprocess.run(["strace", "-f", "-o", trace, "-e", "trace=openat,open"] + cmd, cwd=case["base"], env=env, stdout=subprocess.PIPE, stderr=subprocess.PIPE, text=True, timeout=300)
    reads = []
    with open(trace, errors="replace") as f:
        for line in f:
            m = OPEN.match(line)
            if m and m.group(1).startswith(case["base"]) and "O_DIRECTORY" not in m.group(2) and "O_WRONLY" not in m.group(2) and "O_RDWR" not in m.group(2):
                reads.append(os.path.normpath(m.group(1)))
    ok = p.returncode == 0 and (how != "cli" or p.stdout.strip().startswith("("))
    return ok, sorted(set(r for r in reads if r != os.path.normpath(case["main"]))), (p.stdout + p.stderr)[-300:]


def judge(case, m, how):
    def count(k, n=1):
        m["counters"][k] = m["counters"].get(k, 0) + n

    count("evaluations")
    ok, reads, out = reads_of_compile(case, how)
    if not ok:
        count("compile_failed")
        m["inconclusive"].append({"kind": "compile_failed", "case": case["main"], "how": how, "output": out})
        count("inconclusive.compile_failed")
        return
    if how == "cli":
        rc, listed, err = listing_cli(case)
        if rc != 0:
            sig = "c18:classic-nested-include-listing-fails" if case["sigil"] is None and "unknown keyword in helper" in err else None
            m["violations"].append({"kind": "dependency_listing_failed", "engine": "c18", "sig": sig, "how": how, "stderr": err[-300:], "sigil": case["sigil"], "main": open(case["main"]).read()})
            return
    else:
        listed, err = listing_py(case)
        if listed is None:
            sig = "c18:classic-nested-include-listing-fails" if case["sigil"] is None and "unknown keyword in helper" in (err or "") else None
            m["violations"].append({"kind": "dependency_listing_failed", "engine": "c18", "sig": sig, "how": how, "stderr": err, "sigil": case["sigil"], "main": open(case["main"]).read()})
            return
    listed_norm = sorted(set(os.path.normpath(p if os.path.isabs(p) else os.path.join(case["base"], p)) for p in listed))
    count("files_read", len(reads))
    count("files_listed", len(listed_norm))
    ctx = {"how": how, "sigil": case["sigil"], "search_order": [os.path.basename(d) for d in case["order"]], "main": open(case["main"]).read(),
           "listed": [os.path.relpath(p, case["base"]) for p in listed_norm], "read": [os.path.relpath(p, case["base"]) for p in reads]}
    bad = False
    for r in reads:
        if r not in listed_norm:
            bad = True
            kind = "embedded" if any(os.path.basename(r) == e[3] for e in case["embeds"]) else "included"
            m["violations"].append(dict({"kind": "file_read_but_not_listed", "engine": "c18", "sig": "c18:embed-file-not-listed" if kind == "embedded" else None, "file": os.path.relpath(r, case["base"]), "file_kind": kind}, **ctx))
    for p in listed_norm:
        name = rel_name(case["order"], p)
        fm = first_match(case["order"], name)
        if fm is None or os.path.normpath(fm) != p:
            bad = True
            m["violations"].append(dict({"kind": "listed_file_is_not_the_first_match", "engine": "c18", "file": os.path.relpath(p, case["base"]), "first_match": fm and os.path.relpath(fm, case["base"])}, **ctx))
        elif p not in reads:
            count("listed_but_not_read")
    for r in reads:
        name = rel_name(case["order"], r)
        fm = first_match(case["order"], name)
        if fm is not None and os.path.normpath(fm) != r:
            bad = True
            m["violations"].append(dict({"kind": "compiler_read_a_shadowed_file", "engine": "c18", "file": os.path.relpath(r, case["base"]), "first_match": os.path.relpath(fm, case["base"])}, **ctx))
    if not bad and (reads or listed_norm):
        m["distinct"].add(f"{how}|{case['sigil']}|{','.join(ctx['listed'])}|{','.join(ctx['search_order'])}")
    if len(m["samples"]) < 3 and reads:
        m["samples"].append(ctx)


def stage(ctx):
    root = os.path.join(ctx["outroot"], "c18")
    shutil.rmtree(root, ignore_errors=True)
    os.makedirs(root)
    n = 1500 if ctx["thorough"] else 240
    from concurrent.futures import ThreadPoolExecutor

    def work(i):
        rng = random.Random(ctx["seed"] * 100003 + i)
        m = D.empty_merge()
        case = gen_case(rng, root, i)
        judge(case, m, "cli")
        if i % 3 == 0:
            judge(case, m, "python")
        shutil.rmtree(case["base"], ignore_errors=True)
        return m

    total = D.empty_merge()
    with ThreadPoolExecutor(max_workers=D.NCPU) as ex:
        for m in ex.map(work, range(n)):
            D.merge_into(total, m)
    # pinned witness of the embed-file finding (so it is re-established on every run while listed)
    rng = random.Random(7)
    base = os.path.join(root, "pinned")
    os.makedirs(os.path.join(base, "d0"))
    with open(os.path.join(base, "d0", "lib.clinc"), "w") as f:
        f.write("(\n (defconstant LIBK 5)\n)\n")
    with open(os.path.join(base, "d0", "data.dat"), "w") as f:
        f.write("hello")
    main = os.path.join(base, "main.clsp")
    with open(main, "w") as f:
        f.write("(mod (X)\n  (include *standard-cl-23*)\n  (include lib.clinc)\n  (embed-file DATA bin data.dat)\n  (c DATA (+ X LIBK))\n)\n")
    case = {"base": base, "main": main, "order": [os.path.join(base, "d0")], "sigil": "*standard-cl-23*", "embeds": [(-1, "DATA", "bin", "data.dat")]}
    judge(case, total, "cli")
    # pinned witness of the classic nested-include finding
    base2 = os.path.join(root, "pinned2")
    os.makedirs(os.path.join(base2, "d0"))
    with open(os.path.join(base2, "d0", "lib0.clinc"), "w") as f:
        f.write("(\n (defconstant LIB0_TAG 5)\n (include lib1.clinc)\n)\n")
    with open(os.path.join(base2, "d0", "lib1.clinc"), "w") as f:
        f.write("(\n (defun lib1_f (X) (+ X 1))\n)\n")
    main2 = os.path.join(base2, "main.clsp")
    with open(main2, "w") as f:
        f.write("(mod (X)\n  (include lib0.clinc)\n  (+ LIB0_TAG (lib1_f X))\n)\n")
    case2 = {"base": base2, "main": main2, "order": [os.path.join(base2, "d0")], "sigil": None, "embeds": []}
    judge(case2, total, "cli")
    return total
