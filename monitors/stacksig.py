"""Signatures of abnormal terminations, taken from the native stack with gdb.

crash (stack overflow / abort): run the single case again under gdb; the signature is the set of
chialisp functions that occur at least three times in the top 400 frames (the recursion cycle).
hang: start the case, attach after `settle` seconds; the signature is the outermost chialisp frame
(the entry point that does not return) plus the type/module that occurs most often on the stack
(where the time goes) — stable across sampling moments.
Both are computed on a re-run of the one blamed case only."""
import os
import re
import subprocess
import time

FRAME = re.compile(r"^#\d+\s+(?:0x[0-9a-f]+ in )?(.+?) \(")


def _short(fn):
    fn = re.sub(r"::h[0-9a-f]{16}$", "", fn)
    fn = re.sub(r"::\{\{closure\}\}", "", fn)
    fn = fn.replace("<", "").replace(">", "")
    if " as " in fn:
        fn = fn.split(" as ")[0]
    parts = [p for p in fn.split("::") if p]
    return "::".join(parts[-2:])


def _frames(text):
    out = []
    for line in text.splitlines():
        m = FRAME.match(line)
        if m and "chialisp::" in m.group(1):
            out.append(_short(m.group(1)))
    return out


def crash_signature(cmd, env, cwd, timeout=240):
    try:
        p = subprocess.run(["gdb", "-q", "-batch", "-ex", "set pagination off", "-ex", "run", "-ex", "bt 400", "--args"] + cmd, env=env, cwd=cwd,
                           stdout=subprocess.PIPE, stderr=subprocess.STDOUT, text=True, timeout=timeout)
    except subprocess.TimeoutExpired:
        return None, "gdb timeout"
    fr = _frames(p.stdout)
    if not fr:
        return None, p.stdout[-400:]
    counts = {}
    for f in fr:
        counts[f] = counts.get(f, 0) + 1
    cyc = sorted(f for f, c in counts.items() if c >= 3)
    if not cyc:
        cyc = sorted(set(fr[:6]))
    return "overflow:" + "+".join(cyc), None


def hang_signature(cmd, env, cwd, settle=25):
    p = subprocess.Popen(cmd, env=env, cwd=cwd, stdout=subprocess.DEVNULL, stderr=subprocess.DEVNULL)
    try:
        time.sleep(settle)
        if p.poll() is not None:
            return None, f"terminated by itself (rc={p.returncode})"
        g = subprocess.run(["gdb", "-q", "-batch", "-p", str(p.pid), "-ex", "set pagination off", "-ex", "thread apply all bt 300", "-ex", "echo ===OUTER===\\n", "-ex", "thread apply all bt -40"], stdout=subprocess.PIPE, stderr=subprocess.STDOUT, text=True, timeout=120)
        inner_txt, _, outer_txt = g.stdout.partition("===OUTER===")
        fr = _frames(inner_txt)
        outer = _frames(outer_txt)
    finally:
        p.kill()
        p.wait()
    if not fr:
        return None, "no chialisp frames"
    # entry point: the outermost chialisp frame; where: the compiler phase that occurs most often
    entry = (outer or fr)[-1]
    phases = {}
    for f in fr:
        ph = _phase(f)
        if ph:
            phases[ph] = phases.get(ph, 0) + 1
    where = sorted(phases.items(), key=lambda kv: (-kv[1], kv[0]))[0][0] if phases else "other"
    # (`where` proved unstable across sampling moments; only the entry point is used)
    _ = where
    return f"hang:{entry}", None


PHASES = [
    ("frontend", ("frontend", "preprocessor", "macros", "rename")),
    ("evaluator", ("evaluate", "evaluator")),
    ("codegen", ("codegen", "inline", "lambda")),
    ("optimizer", ("optimize", "cse", "deinline", "depgraph", "above22", "strategy", "brief", "double_apply")),
    ("stepper", ("clvm::", "cldb")),
    ("classic", ("stage_2", "stage_0", "binutils", "reader", "operators")),
]


def _phase(fn):
    low = fn.lower()
    for name, keys in PHASES:
        if any(k in low for k in keys):
            return name
    return None


def still_running_after(cmd, env, cwd, seconds):
    """True if the case does not finish within `seconds` (confirmation run with a 10x budget)."""
    p = subprocess.Popen(cmd, env=env, cwd=cwd, stdout=subprocess.DEVNULL, stderr=subprocess.DEVNULL)
    try:
        p.wait(timeout=seconds)
        return False, p.returncode
    except subprocess.TimeoutExpired:
        p.kill()
        p.wait()
        return True, None
