"""Signatures of abnormal terminations, taken from the native stack with gdb.

crash (stack overflow / abort): run the single case again under gdb; the signature is the set of
chialisp functions that occur at least three times in the top 400 frames (the recursion cycle).
hang: start the case, attach after `settle` seconds; the signature is the outermost chialisp frame
(the entry point that does not return) plus the type/module that occurs most often on the stack
(where the time goes) — stable across sampling moments.
Both are computed on a re-run of the one blamed case only."""
import os
import re
import subprocess
import time

FRAME = re.compile(r"^#\d+\s+(?:0x[0-9a-f]+ in )?(.+?) \(")


def _short(fn):
    fn = re.sub(r"::h[0-9a-f]{16}$", "", fn)
    fn = re.sub(r"::\{\{closure\}\}", "", fn)
    fn = fn.replace("<", "").replace(">", "")
    if " as " in fn:
        fn = fn.split(" as ")[0]
    parts = [p for p in fn.split("::") if p]
    return "::".join(parts[-2:])


def _frames(text):
    out = []
    for line in text.splitlines():
        m = FRAME.match(line)
        if m and "chialisp::" in m.group(1):
            out.append(_short(m.group(1)))
    return out


def _frames_full(text):
    out = []
    for line in text.splitlines():
        m = FRAME.match(line)
        if m and "chialisp::" in m.group(1):
            out.append(m.group(1))
    return out


def _module(fn):
    """the source module a frame belongs to: the last all-lower-case path segment before the function name"""
    fn = re.sub(r"::h[0-9a-f]{16}$", "", fn)
    fn = re.sub(r"::\{\{closure\}\}", "", fn)
    fn = fn.replace("<", "").replace(">", "")
    if " as " in fn:
        fn = fn.split(" as ")[0]
    parts = [p for p in fn.split("::") if p]
    mods = [p for p in parts[:-1] if re.fullmatch(r"[a-z0-9_]+", p) and p != "chialisp"]
    return mods[-1] if mods else "?"


def crash_signature(cmd, env, cwd, timeout=240):
    try:
        p = subprocess.run(["gdb", "-q", "-batch", "-ex", "set pagination off", "-ex", "run", "-ex", "bt 400", "--args"] + cmd, env=env, cwd=cwd,
                           stdout=subprocess.PIPE, stderr=subprocess.STDOUT, text=True, timeout=timeout)
    except subprocess.TimeoutExpired:
        return None, "gdb timeout"
    fr = _frames(p.stdout)
    if not fr:
        return None, p.stdout[-400:]
    counts = {}
    for f in fr:
        counts[f] = counts.get(f, 0) + 1
    cyc = sorted(f for f, c in counts.items() if c >= 3)
    if not cyc:
        cyc = sorted(set(fr[:6]))
    return "overflow:" + "+".join(cyc), None


UTILITY_MODULES = {"sexp", "comptypes", "srcloc", "util", "runtypes", "prims", "gensym", "dialect", "mod", "compiler", "clvm", "__type_compatibility__", "?"}


def _sample(pid):
    """chialisp frames (full names) of the thread that has most of them: (outermost-first list of the outer 40, innermost 12)"""
    g = subprocess.run(["gdb", "-q", "-batch", "-p", str(pid), "-ex", "set pagination off", "-ex", "thread apply all bt 40", "-ex", "echo ===OUTER===\\n", "-ex", "thread apply all bt -40"],
                       stdout=subprocess.PIPE, stderr=subprocess.STDOUT, text=True, timeout=120)
    inner_txt, _, outer_txt = g.stdout.partition("===OUTER===")
    best = []
    for block in re.split(r"\nThread \d+ ", outer_txt):
        fr = _frames_full(block)
        if len(fr) > len(best):
            best = fr
    inner = []
    for block in re.split(r"\nThread \d+ ", inner_txt):
        fr = _frames_full(block)
        if len(fr) > len(inner):
            inner = fr
    return list(reversed(best)), inner


def hang_signature(cmd, env, cwd, settle=25):
    """Signature of a run that does not end: hang:<entry>><home module>.  `entry` is the outermost chialisp frame (the tool
    entry point that does not return); `home` is the source module that holds most of the 40 innermost chialisp frames (data-structure helper modules not counted) over
    three samples taken 2 s apart (where the time goes; the exact functions vary with the input and the moment, the module
    they live in does not).  Two non-terminating defects reached through the same entry point but spinning in different
    modules get different signatures."""
    p = subprocess.Popen(cmd, env=env, cwd=cwd, stdout=subprocess.DEVNULL, stderr=subprocess.DEVNULL)
    outers, votes, votes_all = [], {}, {}
    try:
        time.sleep(settle)
        for k in range(3):
            if p.poll() is not None:
                return None, f"terminated by itself (rc={p.returncode})"
            outer, inner = _sample(p.pid)
            if outer:
                outers.append(outer)
            for f in inner + outer:
                m = _module(f)
                votes_all[m] = votes_all.get(m, 0) + 1
            for f in inner:
                m = _module(f)
                if m in UTILITY_MODULES:
                    continue  # data-structure helpers every phase calls into
                votes[m] = votes.get(m, 0) + 1
            time.sleep(2)
    finally:
        p.kill()
        p.wait()
    if not outers or not votes_all:
        return None, "no chialisp frames"
    entry = _short(outers[0][0])
    # when the innermost frames are all in helper modules, the busiest module of the sampled frames is used instead
    pool = votes if votes else {m: n for m, n in votes_all.items() if m not in UTILITY_MODULES} or votes_all
    home = sorted(pool.items(), key=lambda kv: (-kv[1], kv[0]))[0][0]
    return f"hang:{entry}>{home}", None


PHASES = [
    ("frontend", ("frontend", "preprocessor", "macros", "rename")),
    ("evaluator", ("evaluate", "evaluator")),
    ("codegen", ("codegen", "inline", "lambda")),
    ("optimizer", ("optimize", "cse", "deinline", "depgraph", "above22", "strategy", "brief", "double_apply")),
    ("stepper", ("clvm::", "cldb")),
    ("classic", ("stage_2", "stage_0", "binutils", "reader", "operators")),
]


def _phase(fn):
    low = fn.lower()
    for name, keys in PHASES:
        if any(k in low for k in keys):
            return name
    return None


def still_running_after(cmd, env, cwd, seconds):
    """True if the case does not finish within `seconds` (confirmation run with a 10x budget)."""
    p = subprocess.Popen(cmd, env=env, cwd=cwd, stdout=subprocess.DEVNULL, stderr=subprocess.DEVNULL)
    try:
        p.wait(timeout=seconds)
        return False, p.returncode
    except subprocess.TimeoutExpired:
        p.kill()
        p.wait()
        return True, None
