"""Pinned witnesses of listed known findings, run through the REAL binaries (run / brun).
A witness that still fails yields a violation record whose signature is `pinned:<finding>`;
the driver turns it into a KNOWN-FINDING line when the finding is listed."""
import json
import os
import subprocess
import tempfile

import driver as D


def _run(cmd, cwd, timeout=60):
    try:
        p = subprocess.run(cmd, cwd=cwd, stdout=subprocess.PIPE, stderr=subprocess.PIPE, text=True, timeout=timeout)
        return p.returncode, p.stdout, p.stderr
    except subprocess.TimeoutExpired:
        return -999, "", "TIMEOUT"


def eval_witness(w, workdir, dash_o=False):
    """returns (status, detail): status in ok / wrong_value / compile_error / crash / hang"""
    src = os.path.join(workdir, "w.clsp")
    with open(src, "w") as f:
        f.write(w["source"])
    cmd = [D.repo_bin("run")] + (["-O"] if dash_o else []) + ["--symbol-output-file", os.path.join(workdir, "w.sym"), src]
    rc, out, err = _run(cmd, workdir)
    if rc == -999:
        return "hang", "compiler still running after 60 s"
    if rc < 0 or rc >= 128:
        return "crash", f"compiler died rc={rc}: {err.strip()[-160:]}"
    prog = out.strip()
    if not prog.startswith("("):
        return "compile_error", prog[:200]
    rc, out, err = _run([D.repo_bin("brun"), prog, w["args"]], workdir)
    got = out.strip()
    rc2, out2, _ = _run([D.repo_bin("brun"), "(q . %s)" % w["expected"]], workdir) if not w["expected"].startswith("0x") else (0, w["expected"], "")
    want = out2.strip() if rc2 == 0 else w["expected"]
    if got == want or got == w["expected"]:
        return "ok", got
    return "wrong_value", f"expected {want} got {got[:160]}"


def stage_factory(corpus_file, pid):
    def pinned_witnesses(ctx):
        with open(os.path.join(D.ROOT, "corpus", corpus_file)) as f:
            corpus = json.load(f)
        m = D.empty_merge()
        wd = os.path.join(ctx["outroot"], "pinned")
        os.makedirs(wd, exist_ok=True)
        for i, w in enumerate(corpus["witnesses"]):
            status, detail = eval_witness(w, wd)
            m["counters"]["evaluations"] = m["counters"].get("evaluations", 0) + 1
            m["counters"]["pinned." + status] = m["counters"].get("pinned." + status, 0) + 1
            if status != "ok":
                m["violations"].append({"kind": "pinned_witness_" + status, "sig": "pinned:" + w["finding"], "finding": w["finding"], "source": w["source"], "args": w["args"], "expected": w["expected"], "observed": detail})
        return m

    return pinned_witnesses


def hang_stage_factory(corpus_file, pid):
    """Pinned non-termination witnesses: the real `run` binary on the source; reproduced when it is
    still running after the witness' budget; signature from the native stack."""
    import stacksig

    def pinned_hangs(ctx):
        from concurrent.futures import ThreadPoolExecutor

        with open(os.path.join(D.ROOT, "corpus", corpus_file)) as f:
            corpus = json.load(f)
        m = D.empty_merge()
        wd = os.path.join(ctx["outroot"], "pinned_hangs")
        os.makedirs(wd, exist_ok=True)

        def one(iw):
            i, w = iw
            src = os.path.join(wd, f"h{i}.clsp")
            with open(src, "w") as f:
                f.write(w["source"])
            cmd = [D.repo_bin("run")] + w.get("args", []) + ["--symbol-output-file", os.path.join(wd, f"h{i}.sym"), src]
            sig, why = stacksig.hang_signature(cmd, D.ENV, wd, settle=w.get("budget_s", 25))
            return w, sig, why

        with ThreadPoolExecutor(max_workers=4) as ex:
            for w, sig, why in ex.map(one, enumerate(corpus["witnesses"])):
                m["counters"]["evaluations"] = m["counters"].get("evaluations", 0) + 1
                if sig is None:
                    m["counters"]["pinned.finished"] = m["counters"].get("pinned.finished", 0) + 1
                else:
                    m["counters"]["pinned.still_running"] = m["counters"].get("pinned.still_running", 0) + 1
                    m["violations"].append({"kind": "pinned_witness_does_not_terminate", "sig": sig, "finding": w["finding"], "source": w["source"], "budget_s": w.get("budget_s", 25)})
        return m

    return pinned_hangs
