"""C11 — every compile entry point produces the same program for the same source.

The Rust engine `c11` prepares generated programs on disk (half of them with their helpers in an
include file found through a two-directory search path) and records what the in-process entry
points emit (library entry point, file-to-file, the CLI's own option derivation with and without
-O).  This monitor adds the REAL Python extension (chialisp.compile / compile_clvm), the REAL
`run -O` binary (its printed text re-assembled by the real `opc`) and the REAL `cldb -t` binary
(whose root frame is named after the tree hash of the program it compiled), and compares."""
import hashlib
import json
import os
import subprocess

import driver as D
import plans

PY_BATCH = r"""
import sys, json, chialisp
cases = [json.loads(l) for l in open(sys.argv[1]) if l.strip()]
out = open(sys.argv[2], 'w')
for c in cases:
    r = {'id': c['id']}
    try:
        r['compile'] = chialisp.compile(c['source'], c['dirs'])
    except BaseException as e:
        r['compile_error'] = str(e)[:300]
    try:
        o = c['main'] + '.py.hex'
        chialisp.compile_clvm(c['main'], o, c['dirs'])
        r['compile_clvm'] = open(o).read().strip()
    except BaseException as e:
        r['compile_clvm_error'] = str(e)[:300]
    out.write(json.dumps(r) + '\n')
out.close()
"""


def sha256tree_hex(b):
    """tree hash of a serialised CLVM value"""
    pos = 0

    def rd():
        nonlocal pos
        c = b[pos]
        pos += 1
        if c == 0xFF:
            l = rd()
            r = rd()
            return hashlib.sha256(b"\x02" + l + r).digest()
        if c == 0x80:
            return hashlib.sha256(b"\x01").digest()
        if c < 0x80:
            return hashlib.sha256(b"\x01" + bytes([c])).digest()
        nbits = 0
        mask = 0x80
        while c & mask:
            nbits += 1
            c &= ~mask & 0xFF
            mask >>= 1
        size = c
        for _ in range(nbits - 1):
            size = (size << 8) | b[pos]
            pos += 1
        atom = b[pos : pos + size]
        pos += size
        return hashlib.sha256(b"\x01" + atom).digest()

    return rd().hex()


def run_bin(args, cwd, timeout=120):
    try:
        p = subprocess.run(args, cwd=cwd, stdout=subprocess.PIPE, stderr=subprocess.PIPE, text=True, timeout=timeout)
        return p.returncode, p.stdout, p.stderr
    except subprocess.TimeoutExpired:
        return -999, "", "timeout"


def stage(ctx):
    prep = plans.vh_stage("c11", 8, 16)
    m = prep(ctx)
    outdir = os.path.join(ctx["outroot"], "c11")
    cases = []
    for fn in sorted(os.listdir(outdir)):
        if fn.endswith(".cases.jsonl"):
            with open(os.path.join(outdir, fn)) as f:
                cases += [json.loads(l) for l in f if l.strip()]
    # a shard that was restarted after a watchdog stop writes the cases since its last checkpoint again: keep one record per id
    cases = list({c["id"]: c for c in cases}.values())
    allcases = os.path.join(outdir, "all.cases.jsonl")
    with open(allcases, "w") as f:
        for c in cases:
            f.write(json.dumps(c) + "\n")
    # the real Python extension, one interpreter for the whole batch
    pyout = os.path.join(outdir, "py.results.jsonl")
    env = dict(D.ENV)
    env["PYTHONPATH"] = D.PYMOD_DIR
    p = subprocess.run(["/usr/bin/python3", "-c", PY_BATCH, allcases, pyout], env=env, stdout=subprocess.PIPE, stderr=subprocess.PIPE, text=True, timeout=3000)
    pyres = {}
    if os.path.exists(pyout):
        with open(pyout) as f:
            for l in f:
                r = json.loads(l)
                pyres[r["id"]] = r
    if len(pyres) < len(cases):
        raise D.HarnessError(f"python batch processed {len(pyres)} of {len(cases)} cases; stderr: {p.stderr[-400:]}")

    def count(k, n=1):
        m["counters"][k] = m["counters"].get(k, 0) + n

    from concurrent.futures import ThreadPoolExecutor

    def real_tools(c):
        r = {}
        inc = []
        for d in c["dirs"]:
            inc += ["-i", d]
        rc, so, se = run_bin([D.repo_bin("run"), "-O", "--symbol-output-file", c["main"] + ".sym"] + inc + [c["main"]], c["dir"])
        text = so.strip()
        import re as _re

        looks_like_error = (not text) or text.startswith("FAIL") or _re.search(r"\(\d+\):\d+", text) is not None
        if rc == 0 and not looks_like_error:
            # through a file: a printed value such as -81 would otherwise be taken for a command line option
            tf = c["main"] + ".runO.txt"
            with open(tf, "w") as f:
                f.write(text + "\n")
            rc2, so2, se2 = run_bin([D.repo_bin("opc"), tf], c["dir"])
            r["run_O"] = so2.strip() if rc2 == 0 else None
            r["run_O_text"] = text[:200]
        else:
            r["run_O_error"] = (text or se)[:300]
        if c["dialect"] != "classic":
            for flag, key in (([], "cldb_plain"), (["-O"], "cldb_O")):
                rc, so, se = run_bin([D.repo_bin("cldb"), "-t"] + flag + inc + [c["main"], c["args"]], c["dir"])
                h = None
                for line in so.splitlines():
                    if "Function-Name: clvm_program_" in line:
                        h = line.split("clvm_program_")[1].strip().strip('"')
                        break
                r[key] = h
                if h is None:
                    r[key + "_out"] = so[:300]
        return c, r

    with ThreadPoolExecutor(max_workers=D.NCPU) as ex:
        results = list(ex.map(real_tools, cases))

    for c, r in results:
        count("evaluations")
        py = pyres[c["id"]]
        routes = {
            "library(compile_clvm_text)": c["lib"].get("hex"),
            "file_to_file(compile_clvm)": c["file"].get("hex"),
            "python.compile": py.get("compile"),
            "python.compile_clvm": py.get("compile_clvm"),
            "run -O (re-assembled)": r.get("run_O"),
        }
        if c.get("cli_O") is not None:
            routes["cli_derivation -O"] = c["cli_O"].get("hex")
        errors = {"library": c["lib"].get("error"), "file": c["file"].get("error"), "python.compile": py.get("compile_error"), "python.compile_clvm": py.get("compile_clvm_error"), "run -O": r.get("run_O_error")}
        vals = {k: v for k, v in routes.items() if v}
        distinct = set(vals.values())
        ctxrec = {"engine": "c11", "case": c["id"], "dialect": c["dialect"], "split_include": c["split"], "source": c["source"][:1500]}
        if len(distinct) > 1:
            groups = {}
            for k, v in vals.items():
                groups.setdefault(hashlib.sha256(v.encode()).hexdigest()[:12] + f":len{len(v)}", []).append(k)
            first_diff = None
            vs = list(distinct)
            for i in range(min(len(vs[0]), len(vs[1]))):
                if vs[0][i] != vs[1][i]:
                    first_diff = i
                    break
            # listed finding: with the frontend optimiser on (cl22) unbound-looking generated names such as
            # v2_$_1606 are emitted as string constants, so the bytes carry the fresh-name counter
            sig = None
            if c["dialect"] == "cl22" and (all("5f245f" in v for v in vals.values()) or c.get("cl22_stable_without_frontend_opt")):
                # either every route's bytes literally contain _$_, or the counterfactual holds: the same program built with the
                # frontend optimiser off is identical under two values of the name counter (values computed from generated names
                # do not contain the name itself)
                sig = "cl22:frontend-optimiser-emits-generated-names"
            m["violations"].append(dict({"kind": "entry_points_emit_different_programs", "sig": sig, "groups": groups, "first_difference_at_hex_char": first_diff,
                                         "a": vs[0][max(0, (first_diff or 0) - 20):(first_diff or 0) + 60], "b": vs[1][max(0, (first_diff or 0) - 20):(first_diff or 0) + 60]}, **ctxrec))
        elif vals and len(vals) < len(routes):
            # some routes compiled, others failed
            m["violations"].append(dict({"kind": "entry_points_disagree_on_acceptance", "compiled": sorted(vals), "failed": {k: v for k, v in errors.items() if v}}, **ctxrec))
        elif vals:
            count("agree.all_routes")
            m["distinct"].add(c["id"])
        else:
            count("all_routes_reject")
        # debugger: the program cldb compiled == the program run emits with the same flags
        if c["dialect"] != "classic":
            for key, cli_key in (("cldb_O", "cli_O"), ("cldb_plain", "cli_plain")):
                want = c.get(cli_key, {}) or {}
                if want.get("hex") and r.get(key):
                    count("cldb_compared")
                    th = sha256tree_hex(bytes.fromhex(want["hex"]))
                    if th != r[key]:
                        m["violations"].append(dict({"kind": "debugger_compiled_a_different_program", "flags": key, "cldb_program_hash": r[key], "cli_program_hash": th}, **ctxrec))
                elif want.get("hex") and not r.get(key):
                    count("cldb_no_hash")
        if len(m["samples"]) < 3 and vals:
            m["samples"].append({"case": c["id"], "dialect": c["dialect"], "split_include": c["split"], "routes_agreeing": sorted(vals), "program_hex_prefix": next(iter(vals.values()))[:60]})
    return m
