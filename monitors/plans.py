"""Per-property check plans: which workload engines run, how their observations are judged, and what
goes into the evidence file."""
import json
import os
import subprocess

import driver as D


def _last_open_case(outdir, shard):
    last = None
    p = os.path.join(outdir, f"{shard}.events.jsonl")
    if os.path.exists(p):
        with open(p, errors="replace") as f:
            for line in f:
                try:
                    j = json.loads(line)
                except Exception:
                    continue
                if "begin" in j:
                    last = j["begin"]
                elif "end" in j:
                    last = None
    return last


def run_shard_resilient(engine, shard, nshards, seed, tier, outdir, extra, timeout, max_restarts=10):
    """Run one shard; when the process dies inside a case (watchdog exit 86/87, abort, signal) put that
    case on the shard's skip list, remember what happened, and run the shard again."""
    incidents = []
    for _ in range(max_restarts + 1):
        for fn in (f"{shard}.summary.json",):
            try:
                os.remove(os.path.join(outdir, fn))
            except FileNotFoundError:
                pass
        r = D.run_vh(engine, shard, nshards, seed, tier, outdir, extra, timeout)
        if os.path.exists(os.path.join(outdir, f"{shard}.summary.json")):
            return r, incidents
        case = _last_open_case(outdir, shard)
        if case is None or r["rc"] == -999:
            return r, incidents + [{"rc": r["rc"], "case": case, "stderr": r["stderr"][-600:], "fatal": True}]
        incidents.append({"rc": r["rc"], "case": case, "stderr": r["stderr"][-600:]})
        with open(os.path.join(outdir, f"{shard}.skip"), "a") as f:
            f.write(case + "\n")
        with open(os.path.join(outdir, f"{shard}.events.jsonl"), "a") as f:
            f.write(json.dumps({"end": case, "note": "closed by driver after process death"}) + "\n")
    # the shard keeps dying: stop restarting it.  What it had observed up to its last checkpoint is kept (the engine writes
    # <shard>.partial.json in the summary format); the rest of the shard is inconclusive, the deaths are reported as they are.
    part = os.path.join(outdir, f"{shard}.partial.json")
    summ = os.path.join(outdir, f"{shard}.summary.json")
    if os.path.exists(part):
        os.replace(part, summ)
    else:
        with open(summ, "w") as f:
            json.dump(D.empty_summary(), f)
    incidents.append({"rc": 0, "case": f"shard-{shard}", "stderr": "", "abandoned": True})
    return r, incidents


def vh_stage(engine, quick=4, thorough=16, extra=(), timeout_q=1500, timeout_t=7200, name=None, death_is_violation=True, confirm_hangs=False, case_limit_s=None, benign_case=None, confirm_factor_thorough=10):
    def stage(ctx):
        from concurrent.futures import ThreadPoolExecutor

        n = thorough if ctx["thorough"] else quick
        if case_limit_s is not None and "VH_CASE_LIMIT_S" not in os.environ:
            D.ENV["VH_CASE_LIMIT_S"] = str(case_limit_s)
            os.environ["VH_CASE_LIMIT_S"] = str(case_limit_s)
        outdir = os.path.join(ctx["outroot"], name or engine)
        os.makedirs(outdir, exist_ok=True)
        to = timeout_t if ctx["thorough"] else timeout_q
        with ThreadPoolExecutor(max_workers=min(D.NCPU, n)) as ex:
            futs = [ex.submit(run_shard_resilient, engine, s, n, ctx["seed"], ctx["tier"], outdir, list(extra), to) for s in range(n)]
            results = [f.result() for f in futs]
        sums = []
        m_extra_viol = []
        m_incon = []
        import stacksig

        def replay_cmd(case):
            return [D.VH, engine, "--replay-case"] + case.split("/")

        case_limit = int(os.environ.get("VH_CASE_LIMIT_S", "90"))
        factor = (confirm_factor_thorough if ctx["thorough"] else 5)

        def classify(inc):
            env = dict(D.ENV)
            if inc.get("abandoned"):
                return ("incon", {"kind": "shard_abandoned_after_repeated_process_deaths", "case": inc["case"]})
            if benign_case is not None and benign_case(inc["case"], ctx["thorough"]):
                # a stop / death in a step that is not the subject of this property (e.g. compiling the unchanged twin)
                return ("incon", {"kind": "stopped_outside_the_judged_step", "case": inc["case"], "rc": inc["rc"]})
            if inc["rc"] == 86:
                if confirm_hangs and inc.get("confirm"):
                    # a wall-clock stop is never a verdict by itself: re-run the one case alone with a larger budget
                    env["VH_CASE_LIMIT_S"] = str(case_limit * factor + 60)
                    running, rc2 = stacksig.still_running_after(replay_cmd(inc["case"]), env, outdir, case_limit * factor)
                    if running:
                        sig, why = None, None
                        for _attempt in range(3):
                            sig, why = stacksig.hang_signature(replay_cmd(inc["case"]), env, outdir)
                            if sig is not None:
                                break
                        if sig is None:
                            # the run does not end, but the stack could not be sampled (gdb saw no frames of the crate): without a
                            # signature the hang can be told neither from a listed one nor from a new one -> inconclusive, not a verdict
                            return ("incon", {"kind": "hang_without_signature", "case": inc["case"], "note": why})
                        return ("viol", {"kind": "does_not_terminate", "engine": engine, "sig": sig, "case": inc["case"], "note": f"still running after {case_limit * factor}s alone; {why or ''}"})
                return ("incon", {"kind": "watchdog_time", "case": inc["case"]})
            if inc["rc"] == 87:
                return ("incon", {"kind": "watchdog_memory", "case": inc["case"]})
            if death_is_violation:
                env["VH_CASE_LIMIT_S"] = "600"
                if inc.get("analyse", True):
                    sig, why = stacksig.crash_signature(replay_cmd(inc["case"]), env, outdir)
                else:
                    sig, why = None, "signature not computed (more than 8 process deaths in this run)"
                return ("viol", {"kind": "process_death", "engine": engine, "sig": sig, "rc": inc["rc"], "case": inc["case"], "stderr": inc["stderr"][-300:], "note": why})
            return ("incon", {"kind": "process_death", "case": inc["case"], "rc": inc["rc"]})

        all_inc = []
        nconf = 0
        ndeath = 0
        for r, incidents in results:
            for inc in incidents:
                if inc.get("fatal"):
                    raise D.HarnessError(f"engine {engine} shard {r['shard']} died rc={inc['rc']} outside any case; stderr tail:\n{inc['stderr']}")
                if inc["rc"] == 86 and nconf < 12:
                    inc["confirm"] = True
                    nconf += 1
                if inc["rc"] not in (86, 87) and not inc.get("abandoned"):
                    ndeath += 1
                    inc["analyse"] = ndeath <= 8
                all_inc.append(inc)
        with ThreadPoolExecutor(max_workers=12) as ex:
            for kind, rec in ex.map(classify, all_inc):
                (m_extra_viol if kind == "viol" else m_incon).append(rec)
        for r, incidents in results:
            p = os.path.join(outdir, f"{r['shard']}.summary.json")
            with open(p) as f:
                sums.append(json.load(f))
        m = D.merge(sums)
        m["violations"].extend(m_extra_viol)
        for inc in m_incon:
            m["inconclusive"].append(inc)
            k = "inconclusive." + inc["kind"]
            m["counters"][k] = m["counters"].get(k, 0) + 1
        return m

    stage.__name__ = name or engine
    return stage


RULES = {}
LEVELS = {}
PLANS = {}


def register(pid, stages, rule, level="exploration", needs=(), min_nontrivial=2, assumptions=(), exhaustive=False):
    PLANS[pid] = {"stages": stages, "needs": list(needs), "min_nontrivial": min_nontrivial, "assumptions": list(assumptions), "exhaustive": exhaustive}
    RULES[pid] = rule
    LEVELS[pid] = level


COMMON_ASSUME = [
    "clvmr 0.16.2 (run_program under ChiaDialect, serde::node_to_bytes/node_from_bytes) and sha2 are the trusted oracle",
    "results hold only for the executions produced by this run",
]

register(
    "C20",
    [vh_stage("c20", 1, 1)],
    "finite space enumerated completely at run time against the live tables: every (name,opcode) of keyword_to_atom/keyword_from_atom v0..2 and prims(), "
    "every opcode 0..255 plus the two 4-byte secp opcodes under each version, and one single-operator program per name x sample argument list x route "
    "{classic compiler, six modern dialects, assembler} run by clvmr and by the stepping evaluator; a cell is non-trivial/distinct by (name, route, argument list)",
    needs=(),
    exhaustive=True,
    assumptions=COMMON_ASSUME + ["the harness' own table of the CLVM specification's operator numbering (49 names) is correct"],
)


register(
    "C06",
    [vh_stage("c06", 4, 16)],
    "A: every binary tree with <=4 (quick) / <=5 (thorough) leaves over {q,a,i,c,f,r,l,x,=,+,-,11,nil} x standard environments; B: every expression of the size-bounded grammar "
    "(paths, quoted data, f r l x + - a c = i) up to size 4/5; C: random trees over the full operator set (no softfork) with hostile shapes, path-atom families, both integer modes; "
    "each program is stepped in several atom spellings and compared with clvmr on the conversion of the same rich value. Non-trivial/distinct = distinct (program, env) on which both evaluators returned the same value",
    assumptions=COMMON_ASSUME + ["heads are spelled numerically: the stepping evaluator reads Atom/QuotedString heads as operator names by design"],
    min_nontrivial=1000,
)

register(
    "C04",
    [vh_stage("c04", 4, 16)],
    "A: every binary tree with <=4/5 leaves over the reduced alphabet; B: every grammar expression up to size 4/5, each in 5 environments; C: f/r chains of length 0..80 over path atoms of 1..9 bytes "
    "(all-ones, top-bit-set, zero-padded, 2^k neighbours) bare and re-rooted through (a (q . X) ENV), with an environment synthesised for the composed position; D: random trees over the full operator set. "
    "Premise: clvmr(R,E) returns v; then optimize_sexp(R) and run_optimizer(R) must succeed and clvmr(R',E)=v. Non-trivial/distinct = distinct R that returned a value and that the optimiser actually rewrote",
    assumptions=COMMON_ASSUME,
    min_nontrivial=500,
)


register(
    "C07",
    [vh_stage("c07", 4, 16)],
    "every atom of length 0..2 (quick) / 0..3 (thorough) exhaustively plus random trees over zero-prefixed, sign-extended, printable, quote/backslash, 32-byte and multi-KiB atoms: "
    "to(from(x))==x and classic/modern/clvmr tree hashes equal, in both integer modes; equality pools: for colliding spellings of a byte string (converted from CLVM, read from hex/decimal/quoted/bareword text) "
    "all pairs must satisfy a==b <=> identical encodings and a==b => equal std hash. Distinct non-trivial = distinct values checked + distinct cross-spelling equal pairs",
    assumptions=COMMON_ASSUME,
    min_nontrivial=1000,
)

register(
    "C08",
    [vh_stage("c08", 4, 16)],
    "atoms at every length-class boundary (0,1,0x3f/0x40,0x1fff/0x2000,0xfffff/0x100000, multi-MiB in thorough) alone and in trees, random trees: sexp_to_stream bytes == clvmr node_to_bytes and sexp_from_stream(bytes)==x; "
    "decoder differential on every byte string of length <=2/<=3, truncations at every offset of valid encodings, flipped prefix bits, over-long prefixes, trailing garbage, random bytes: ours Ok(v) => clvmr Ok(v). "
    "Distinct non-trivial = distinct inputs on which our decoder returned a value (compared with clvmr) or distinct round-tripped values",
    assumptions=COMMON_ASSUME,
    min_nontrivial=1000,
)

register(
    "C09",
    [vh_stage("c09", 8, 16)],
    "every atom of length 0..2 (and length 3 over a 60-symbol alphabet quick / all 256 thorough) alone, in head position, non-head position, improper tail and nested head, plus random trees over all printable classes: "
    "assemble(disassemble(x,v))==x for v=0,1,2; fixed integer mode: parse_sexp(print(from_clvm(x))) converts back to x and assemble(print(from_clvm(x)))==x. Distinct non-trivial = distinct (value, route) that round-tripped",
    assumptions=COMMON_ASSUME,
    min_nontrivial=1000,
)


import pinned  # noqa: E402

register(
    "C01",
    [vh_stage("c01", 16, 16), pinned.stage_factory("pinned_c01.json", "C01")],
    "A: parameter sweep N=1..40 x {flat, dotted, nested} x 4 bodies compiled in all six dialects and run on argument trees with pairwise distinct leaves; B: random well-scoped programs from the typed AST generator "
    "(defun, defun-inline, defconstant, defconst, defmacro, let, let*, assign/-inline/-lambda with destructuring, lambda with captures, &rest tails, (@ n pat), nested/dotted params, nested mod, if/list/qq, operators, literals) "
    "rendered in two (quick) / six (thorough) dialects, compiled as the CLI does without -O, run by clvmr on 5 argument trees and compared with the reference interpreter whenever it returns a value. "
    "Non-trivial/distinct = distinct program (hash of its text) using a binding/abstraction construct, compared on >=1 argument tree, with >=2 different reference values across its trees",
    assumptions=COMMON_ASSUME + ["the reference interpreter (harness/src/refi.rs) implements the documented source-level meaning (DESIGN.md appendix A); it delegates every operator to clvmr",
                                 "the random workload is steered away from the feature combinations of the listed known findings; those are re-established by pinned witnesses through the real run/brun binaries"],
    min_nontrivial=50,
    needs=("bins",),
)


register(
    "C02",
    [vh_stage("c02", 16, 16, case_limit_s=40)],
    "generated programs (as C01, another slice of the generator's sequence) x dialects (2 per program quick / all 6 thorough) x 8 option sets {all off, optimize, frontend_opt, both, post-optimiser, optimize+post-optimiser, library path, CLI -O}; "
    "every build is run by clvmr on 5 argument trees and must return the reference value whenever the reference returns one (which implies pairwise agreement and that switching an option on never loses a value). "
    "Non-trivial/distinct = distinct program compared on >=1 argument tree for which >=2 builds produced different bytes",
    assumptions=COMMON_ASSUME + ["reference interpreter as in C01", "shipped real-world programs are covered by the C05/C11 corpus stages, not here"],
    min_nontrivial=50,
)


register(
    "C03",
    [vh_stage("c03", 16, 16), pinned.stage_factory("pinned_c03.json", "C03")],
    "A: parameter sweep N=1..40 x {flat, dotted, nested} x 4 bodies through the classic compiler (compile_clvm_text, no sigil) on argument trees with pairwise distinct leaves; B: random sigil-free programs from the classic subset of the generator "
    "(defun, defun-inline, defmacro templates, defconstant, defconst, if/list/qq, operators, literals) compiled by the classic compiler and run by clvmr on 5 argument trees against the reference interpreter; "
    "second oracle: the modern cl21 build of the same text returns the same value wherever both return. Non-trivial/distinct = distinct program compared on >=1 argument tree with >=2 different reference values",
    assumptions=COMMON_ASSUME + ["reference interpreter as in C01", "integer literals whose bytes spell an operator keyword are not generated: classic reads atoms untyped by design"],
    min_nontrivial=50,
    needs=("bins",),
)


register(
    "C14",
    # a well-formed, unmutated program (case id ends in u) that is still compiling after the quick confirmation budget (100 s) is
    # inconclusive in the quick tier: valid programs that take minutes to compile exist (de-inliner search); the thorough tier
    # waits 600 s (30 x 20 s) before it calls anything non-termination
    [vh_stage("c14", 16, 16, confirm_hangs=True, case_limit_s=20, confirm_factor_thorough=30, benign_case=lambda c, thorough: (not thorough) and c.endswith("u")), pinned.hang_stage_factory("pinned_c14.json", "C14")],
    "inputs: token-level (delete/duplicate/swap/replace by keyword or delimiter/insert/group delete) and byte-level (truncate at a random offset, bit flip, byte insertion, splice of two sources) mutants of generated programs in every dialect "
    "and of the shipped sources under resources/tests (<= 4 KiB), token soup over the language's keywords and delimiters, random bytes, nesting <= 200; each input goes through every entry point: compile (library path, no-optimise path, CLI derivation), "
    "assemble, disassemble v0/1/2, serialise, deserialise (raw and hex), brun-style run, stepping run, cldb stepping, preprocess (-E), dependency listing, unused-argument check, REPL line by line, and the in-process run/run -O/brun/opc/opd tools. "
    "Oracle: result or error only (a panic is caught and is a violation; a dead shard process is a violation blamed on the input whose BEGIN has no END; a watchdog stop is inconclusive); modern compile errors must lie inside the text they name. "
    "Distinct non-trivial = distinct input bytes that went through all entry points cleanly",
    assumptions=["8 MiB thread stack (the CLI's main thread)", "REPL error locations are relative to the expression being entered and are not bounds-checked",
                 "a watchdog stop is confirmed by re-running the one input alone with a 5x (quick) / 10x (thorough) budget before it is called non-termination; non-termination and process deaths are identified by a native-stack signature (entry point / recursion cycle)"],
    min_nontrivial=200,
    needs=("bins",),
)

register(
    "C15",
    [vh_stage("c15", 4, 16)],
    "the harness lays out random token trees itself (barewords, negative and large decimals, hex, both quote styles with escapes, #-operators, dotted tails, nested lists, random blanks, newlines and comments), so every token's span is known: "
    "leaf location == token span exactly, list location within its parentheses, bytewise ParsePartialResult == parse_sexp (values and locations); reader errors on mutants lie within the text; a separate stratum feeds texts with #( structured lists for bytewise==whole. "
    "Distinct non-trivial = distinct laid-out text whose every token and list was checked, plus distinct rejected mutants with an in-bounds location",
    assumptions=["tab-free layouts"],
    min_nontrivial=500,
)


import c19  # noqa: E402

register(
    "C19",
    [c19.stage],
    "for each previous state {absent, same contents, different contents} x entry point {Rust compile_clvm child, real Python extension chialisp.compile_clvm}: an uninjected strace gives the window of system calls from the first call naming the output directory to exit; "
    "CRASH ENUMERATION: the run is repeated once per call of the window with SIGKILL delivered immediately before that call (every point at which the durable state can differ), then the output path must hold exactly the old or the complete new contents; "
    "FAULT ENUMERATION: ENOSPC/EACCES (thorough: +EIO, EXDEV) injected at each call of the window; same-contents state: the call must still report success when every write-side call fails; the trace is audited (output path never opened for writing/truncated/unlinked, only renamed onto from a completely written sibling); "
    "SCHEDULES: 2 and 8 (thorough 1,2,4,8) concurrent writer processes with injected delays around write/rename plus polling readers. Distinct non-trivial = distinct (entry, state, injected signal/errno, syscall occurrence) points at which the injection demonstrably hit",
    level="fault_enumeration",
    needs=("bins", "py"),
    min_nontrivial=40,
    assumptions=["POSIX rename semantics of the sandbox file system; durability across power loss (fsync) is not part of the property", "run as root: read-only states are produced by injected EACCES, not by permission bits"],
)


import c18  # noqa: E402

register(
    "C18",
    [c18.stage],
    "generated include graphs in scratch trees: 0..5 library files with include edges of depth <= 4, embed-file bin/hex/sexp in the main program and in libraries, every file placed in 1..2 of 1..3 search directories (shadowed copies have different contents), "
    "random search-path order, every dialect incl. classic; listing from the real `run -M` (every case) and from the real Python binding's check_dependencies (every third case); files actually read taken from an strace openat log of the real compilation of the same program (run / chialisp.compile_clvm). "
    "Oracle: every sandbox file read is listed; every listed path is the first match of its name in search order; the compiler itself never reads a shadowed copy. Distinct non-trivial = distinct (entry, dialect, listed set, search order) with at least one dependency that was judged clean",
    needs=("bins", "py"),
    min_nontrivial=20,
    assumptions=["files opened successfully for reading below the scratch tree, other than the main source, are the files whose contents the compiler reads"],
)


def _c11_stage(ctx):
    import c11

    return c11.stage(ctx)


_c11_stage.__name__ = "c11"

register(
    "C11",
    [_c11_stage],
    "generated programs (every dialect incl. classic, half of them with their helpers in an include file found through a two-directory search path): bytes from compile_clvm_text, file-to-file compile_clvm, the CLI's own option derivation with -O, "
    "the real Python extension (chialisp.compile and chialisp.compile_clvm), the real `run -O` binary re-assembled by the real `opc`; all routes that compile must emit identical bytes and must agree on acceptance; "
    "for dialect programs the real `cldb -t` [-O] names its root frame clvm_program_<treehash>: that hash must equal the tree hash of what `run` emits with the same flags. Distinct non-trivial = distinct program on which all routes emitted the same bytes",
    needs=("bins", "py"),
    min_nontrivial=20,
    assumptions=["the WASM binding is not executed (no wasm target / node in the image); it calls the same library function"],
)


register(
    "C13",
    [vh_stage("c13", 16, 16)],
    "generated programs with up to 8 helpers (functions, inline functions, constants, macros; lets and lambdas give compiler-synthesised functions) in every modern dialect, four builds each (library route with the optimiser off / on, the command line derivation without / with -O, which adds location entries), "
    "classic programs through the real `run --symbol-output-file` binary. Oracle per function entry (64-hex key, value not a source location) whose hash is the tree hash of a subtree of the emitted program: the value is the name of a non-inline function of the source (or a compiler-made name containing _$_); "
    "<key>_arguments parses to the function's parameter list; the code is extracted twice (own subtree search, and the repository's extract_program_and_env + path_to_function + rewrite_in_program, which must agree) and run with clvmr on 3 generated argument lists: it must return what the independent reference interpreter gives for calling that function in the source (or fail where it fails). "
    "Builds without optimisation (stepping < 23, optimiser off, cl22 frontend optimiser off): every non-inline function reachable from the main expression through function / inline / macro bodies has such an entry. Distinct non-trivial = distinct (program, dialect, build) with >= 1 user function judged and every clause clean",
    needs=("bins",),
    min_nontrivial=100,
    assumptions=["compiler-synthesised functions (letbinding_$_N, lambda_$_N) have no source twin to call: their entries are checked for presence of code only", "functions with closure-typed parameters are not run", "classic: the table comes from the CLI and also lists constants; the classic compiler always optimises, so only the hash/name clause is judged there",
                 "reachability through computed constant definitions (evaluated at compile time) is not judged"],
)


register(
    "C17",
    [vh_stage("c17", 16, 16, death_is_violation=False, case_limit_s=30)],
    "generated programs (every modern dialect, command line build with and without -O) whose parameter list is extended by 1..4 lower-case parameters placed flat in front, as a nested group, or as a group with a dotted tail; each added parameter is used in one of 13 modes "
    "(directly, through a helper, an inline helper, a let, a lambda capture, only in one branch of a dynamic condition, only as a condition, only in a failing branch, only in the dead branch of a static condition, not at all, passed to a helper that ignores it, as a &rest argument, through an inline helper of a helper); the generator's own parameters (renamed to lower case) are used or unused as generated. "
    "The report is taken from check_unused (what run --check-unused-args prints). Oracle, for every reported parameter that does not overlap an @ capture: 3 (thorough 6) generated argument trees x 7 replacement values of all shapes for that parameter alone; the compiled program run by clvmr must return the same value for both members of every pair or fail for both. "
    "Distinct non-trivial = distinct program with >= 1 reported parameter whose pairs all agreed",
    min_nontrivial=100,
    assumptions=["a case the check's evaluator does not finish within 30 s is inconclusive here (non-termination is C14's subject)", "parameters below or naming an @ capture are not judged: no pair of inputs differs in such a parameter alone"],
)


register(
    "C10",
    [vh_stage("c10", 16, 16, confirm_hangs=True, case_limit_s=20, benign_case=lambda c, thorough: c.endswith("/twin"))],
    "well-scoped generated programs (as C01, every modern dialect, command line build, -O on every second case) whose unchanged twin compiles, each with exactly one injected defect: "
    "(a, strict dialects: strict-cl21, cl23, cl23.1, cl24) a fresh unbound name at a random variable position of the main expression (2 positions), of every reachable function and inline function body, as an extra lambda capture, as a &rest tail; "
    "(b) a second defun / defun-inline with the name of an existing function, inserted at a random place; (c) a cycle of 1..4 new inline functions reachable from the main expression (the back call in an argument, a branch, a let binding, a list, an else branch) and a self call added to an existing reachable inline function; "
    "(d) an assign / assign-inline / assign-lambda form with a dependency cycle of length 1..3 or with a repeated name (also through a destructuring pattern). Oracle: compilation returns (watchdog 20 s per case; a stop is confirmed by an isolated re-run before it counts as non-termination; a dead process is a violation) "
    "with an error, never with code, and the message contains an identifier of the defect (or, for assign defects, speaks of the binding). Distinct non-trivial = distinct defective program rejected with an error naming the defect",
    min_nontrivial=300,
    assumptions=["positions: the recorded set unbound_positions lists the syntactic contexts that were hit", "strict-cl21 is built without -O (its optimise flag is the subject of a listed C02 finding)"],
)


register(
    "C16",
    [vh_stage("c16", 16, 16, death_is_violation=True, case_limit_s=30)],
    "sessions of the Repl object configured as the repl binary configures it: the definitions (defun, defun-inline, defconstant, defmacro) of a generated program entered one per line, macros and constants first, functions in generated or shuffled order; then "
    "(A) closed expressions: the program's main expression with its parameters bound to quoted generated argument values, once by a let around it and once by a call of an inline wrapper function (3, thorough 5, argument trees each); a quoted-constant answer must equal what the program (mod PARAMS definitions expression), "
    "compiled by compile_file with the REPL's own options, returns under clvmr whenever that returns a value; (B) the open expression with the parameters as free variables: a constant answer is compared the same way for every argument tree, a residual answer is compiled in the parameters' scope and must return what the original returns "
    "for every generated argument tree on which the original returns a value. Evaluator errors (depth limit) are not judged, panics are. Distinct non-trivial = distinct (definitions, expression) with >= 1 comparison and none failing",
    min_nontrivial=100,
    assumptions=["programs with defconst (not a REPL definition form) or closure-typed parameters are skipped", "the comparison program is compiled without a dialect sigil, like the REPL's own frontend"],
)


def _c12_stage(ctx):
    import c12

    return c12.stage(ctx)


_c12_stage.__name__ = "c12"

register(
    "C12",
    [_c12_stage],
    "compiled generated programs (every modern dialect, optimised and not, with and without their symbol table, source lines supplied) and random raw CLVM over the full operator set with argument trees: each is stepped to the end with CldbRun (lock-step with the machine state), "
    "the same program re-read from hex (hex_to_modern_sexp) and through cldb_hierarchy (the -t view). Oracle per run: ends; Final equals clvmr's value / a Failure or Throw entry exactly when clvmr fails; Row numbers consecutive from 0; "
    "every row carrying Operator+Arguments+Value is re-evaluated with clvmr (that operator applied to those arguments must give that value); hex and source rows identical modulo location keys; "
    "for a sample the REAL `cldb -x` and `cldb -x -t` binaries are run and their YAML must equal the judged library rows/tree. Distinct non-trivial = distinct (program, arguments) whose trace had >= 3 rows and passed every clause",
    needs=("bins",),
    min_nontrivial=100,
    assumptions=["rows of the apply operator carry Env/Env-Args instead of Arguments and are outside the per-row clause as stated", "row texts are parsed back with the repository's reader; rows whose texts do not parse to a proper argument list are counted as not checkable"],
)


def _c05_slow_shipped(ctx):
    """Shipped programs whose compilation takes minutes (skipped by the in-process stage): each is compiled in fresh
    processes started from different values of the fresh-name counter; bytes and symbol entries must be identical.
    Thorough tier only (quick: two medium-sized files)."""
    import glob
    import hashlib
    from concurrent.futures import ThreadPoolExecutor

    m = D.empty_merge()
    outdir = os.path.join(ctx["outroot"], "c05slow")
    os.makedirs(outdir, exist_ok=True)
    d23 = os.path.join(D.REPO, "resources", "tests", "game-referee-in-cl23")
    d21 = os.path.join(D.REPO, "resources", "tests", "game-referee-in-cl21")
    if ctx["thorough"]:
        files = sorted(glob.glob(os.path.join(d23, "test_*.clsp")) + glob.glob(os.path.join(d23, "smoke_*.clsp")) + glob.glob(os.path.join(d21, "test_hand*.clsp")))
        counters = [0, 95, 99990]
    else:
        files = [os.path.join(d23, "test_prepend.clsp"), os.path.join(d23, "test_range.clsp"), os.path.join(d23, "smoke_test_sort.clsp")]
        counters = [0, 95]
    files = [f for f in files if os.path.exists(f)]
    jobs = [(f, c) for f in files for c in counters]

    def one(job):
        f, c = job
        env = dict(D.ENV)
        env["VH_C05_CTR"] = str(c)
        try:
            p = subprocess.run([D.VH, "c05-child", f, f, "1", os.path.dirname(f)], env=env, cwd=outdir, stdout=subprocess.PIPE, stderr=subprocess.PIPE, text=True, timeout=1500)
            return job, json.loads(p.stdout)
        except Exception as e:  # timeout / no output: inconclusive, never a verdict
            return job, {"harness": str(e)[:200]}

    with ThreadPoolExecutor(max_workers=D.NCPU) as ex:
        res = list(ex.map(one, jobs))
    by = {}
    for (f, c), r in res:
        by.setdefault(f, []).append((c, r))
    for f, obs in by.items():
        m["counters"]["evaluations"] = m["counters"].get("evaluations", 0) + len(obs)
        if any("harness" in r for _, r in obs):
            m["inconclusive"].append({"kind": "slow_shipped_child_failed", "case": os.path.relpath(f, D.REPO)})
            m["counters"]["inconclusive.slow_shipped_child_failed"] = m["counters"].get("inconclusive.slow_shipped_child_failed", 0) + 1
            continue
        keys = [(r.get("hex"), json.dumps(r.get("symbols"), sort_keys=True)) for _, r in obs]
        m["counters"]["slow_shipped.files"] = m["counters"].get("slow_shipped.files", 0) + 1
        if len(set(keys)) > 1:
            c0, r0 = obs[0]
            for c1, r1 in obs[1:]:
                if (r1.get("hex"), json.dumps(r1.get("symbols"), sort_keys=True)) != keys[0]:
                    s0, s1 = r0.get("symbols") or {}, r1.get("symbols") or {}
                    diff = [k for k in sorted(set(s0) | set(s1)) if s0.get(k) != s1.get(k)][:4]
                    m["violations"].append({"kind": "compilation_not_a_pure_function", "engine": "c05", "how": "fresh_process_slow_shipped", "target": "shipped:" + os.path.relpath(f, D.REPO), "counters": [c0, c1],
                                            "bytes_equal": r0.get("hex") == r1.get("hex"), "symbol_entries": [len(s0), len(s1)], "differing_symbol_keys": diff})
                    break
        elif obs[0][1].get("hex"):
            m["distinct"].add("slow:" + hashlib.sha256(f.encode()).hexdigest()[:12])
    return m


_c05_slow_shipped.__name__ = "c05slow"

register(
    "C05",
    [vh_stage("c05", 16, 16), _c05_slow_shipped],
    "targets: generated programs in every dialect incl. classic plus shipped sources from resources/tests (with their include directories), alternately with and without the optimise flag; each target is compiled "
    "(A) 5 (thorough 12) times in one process after random histories of prior compilations (other programs and dialects, mutated programs that fail, a strict-mode error) and after ARGNAME_CTR was set to one of 14 values (0, 8, 9, 98, 99, ..., 10^k+-1, usize::MAX/2), "
    "(B) in 2 (5) fresh processes (new hash seeds), (C) by 2..16 concurrent threads; probe programs built from the shapes the optimiser passes key on (constant calls, several independent repeated subexpressions, inline functions used repeatedly, lets, lambdas, assign) are targets too and their typo twins (an unbound name raised from inside a pass) are part of the histories; "
    "(D) shipped game-referee programs that take up to minutes to compile, in fresh processes started from counter values 0, 95, 99990 (quick: three smaller files, two counters); bytes and symbol tables (keys verbatim, generated-name suffixes _$_<n> canonicalised in values) must equal the first observation; after every compilation the thread's integer-conversion mode is probed. "
    "Distinct non-trivial = distinct successfully compiled target that consumed >= 1 generated name and was compared under >= 3 counter values and >= 5 hash seedings",
    min_nontrivial=20,
    assumptions=["RandomState seeds cannot be chosen: every HashMap instance and every process draws new keys, the evidence reports how many compilations were compared", "targets slower than 1.5 s (quick) / 20 s (thorough) per compilation are skipped"],
)


def evidence(pid, plan, merged, tier, seed, wall, nviol, known_hits):
    c = merged["counters"]
    cov = {
        "evaluations": int(c.get("evaluations", 0)),
        "distinct_nontrivial": len(merged["distinct"]),
        "rule": RULES[pid],
        "samples": merged["samples"][:12] or [{"note": "no sample recorded"}],
        "counters": {k: v for k, v in sorted(c.items())},
        "observed_sets": {k: sorted(v)[:80] for k, v in merged["sets"].items()},
        "inconclusive": int(sum(v for k, v in c.items() if k.startswith("inconclusive."))),
        "inconclusive_samples": merged["inconclusive"][:6],
        "known_finding_hits": known_hits,
        "extra": merged["extra"],
    }
    if plan.get("exhaustive"):
        cov["exhaustive"] = True
    return {
        "property_id": pid,
        "tier": tier if tier in ("quick", "thorough") else "quick",
        "seed": seed,
        "level": LEVELS[pid],
        "coverage": cov,
        "assumptions": plan["assumptions"],
        "wall_s": round(wall, 1),
        "violations": nviol,
    }


def replay(pid, plan, path):
    with open(path) as f:
        j = json.load(f)
    v = j.get("violation", j)
    eng = v.get("engine") or pid.lower()
    import subprocess

    p = subprocess.run([D.VH, eng, "--replay", path, "--tier", j.get("tier", "quick"), "--seed", str(j.get("seed", 1))], env=D.ENV)
    return p.returncode
