"""Per-property check plans: which workload engines run, how their observations are judged, and what
goes into the evidence file."""
import json
import os

import driver as D


def vh_stage(engine, quick=4, thorough=16, extra=(), timeout_q=1500, timeout_t=7200, name=None, crash_ok=False):
    def stage(ctx):
        n = thorough if ctx["thorough"] else quick
        outdir = os.path.join(ctx["outroot"], name or engine)
        res = D.fan_out(engine, n, ctx["seed"], ctx["tier"], outdir, extra, timeout_t if ctx["thorough"] else timeout_q)
        sums, dead = D.load_summaries(outdir, res, engine, crash_ok=crash_ok)
        m = D.merge(sums)
        for d in dead:
            # crash-tolerant engines: blame the case whose BEGIN has no END
            last = None
            p = os.path.join(outdir, f"{d['shard']}.events.jsonl")
            if os.path.exists(p):
                with open(p, errors="replace") as f:
                    for line in f:
                        try:
                            j = json.loads(line)
                        except Exception:
                            continue
                        if "begin" in j:
                            last = j
                        elif "end" in j:
                            last = None
            if d["rc"] == -999:
                m["inconclusive"].append({"kind": "shard_watchdog", "case": last})
                m["counters"]["inconclusive.shard_watchdog"] = m["counters"].get("inconclusive.shard_watchdog", 0) + 1
            else:
                m["violations"].append({"kind": "process_death", "rc": d["rc"], "stderr": d["stderr"][-600:], "case": last})
        return m

    stage.__name__ = name or engine
    return stage


RULES = {}
LEVELS = {}
PLANS = {}


def register(pid, stages, rule, level="exploration", needs=(), min_nontrivial=2, assumptions=(), exhaustive=False):
    PLANS[pid] = {"stages": stages, "needs": list(needs), "min_nontrivial": min_nontrivial, "assumptions": list(assumptions), "exhaustive": exhaustive}
    RULES[pid] = rule
    LEVELS[pid] = level


COMMON_ASSUME = [
    "clvmr 0.16.2 (run_program under ChiaDialect, serde::node_to_bytes/node_from_bytes) and sha2 are the trusted oracle",
    "results hold only for the executions produced by this run",
]

register(
    "C20",
    [vh_stage("c20", 1, 1)],
    "finite space enumerated completely at run time against the live tables: every (name,opcode) of keyword_to_atom/keyword_from_atom v0..2 and prims(), "
    "every opcode 0..255 plus the two 4-byte secp opcodes under each version, and one single-operator program per name x sample argument list x route "
    "{classic compiler, six modern dialects, assembler} run by clvmr and by the stepping evaluator; a cell is non-trivial/distinct by (name, route, argument list)",
    needs=(),
    exhaustive=True,
    assumptions=COMMON_ASSUME + ["the harness' own table of the CLVM specification's operator numbering (49 names) is correct"],
)


register(
    "C06",
    [vh_stage("c06", 4, 16)],
    "A: every binary tree with <=4 (quick) / <=5 (thorough) leaves over {q,a,i,c,f,r,l,x,=,+,-,11,nil} x standard environments; B: every expression of the size-bounded grammar "
    "(paths, quoted data, f r l x + - a c = i) up to size 4/5; C: random trees over the full operator set (no softfork) with hostile shapes, path-atom families, both integer modes; "
    "each program is stepped in several atom spellings and compared with clvmr on the conversion of the same rich value. Non-trivial/distinct = distinct (program, env) on which both evaluators returned the same value",
    assumptions=COMMON_ASSUME + ["heads are spelled numerically: the stepping evaluator reads Atom/QuotedString heads as operator names by design"],
    min_nontrivial=1000,
)

register(
    "C04",
    [vh_stage("c04", 4, 16)],
    "A: every binary tree with <=4/5 leaves over the reduced alphabet; B: every grammar expression up to size 4/5, each in 5 environments; C: f/r chains of length 0..80 over path atoms of 1..9 bytes "
    "(all-ones, top-bit-set, zero-padded, 2^k neighbours) bare and re-rooted through (a (q . X) ENV), with an environment synthesised for the composed position; D: random trees over the full operator set. "
    "Premise: clvmr(R,E) returns v; then optimize_sexp(R) and run_optimizer(R) must succeed and clvmr(R',E)=v. Non-trivial/distinct = distinct R that returned a value and that the optimiser actually rewrote",
    assumptions=COMMON_ASSUME,
    min_nontrivial=500,
)


register(
    "C07",
    [vh_stage("c07", 4, 16)],
    "every atom of length 0..2 (quick) / 0..3 (thorough) exhaustively plus random trees over zero-prefixed, sign-extended, printable, quote/backslash, 32-byte and multi-KiB atoms: "
    "to(from(x))==x and classic/modern/clvmr tree hashes equal, in both integer modes; equality pools: for colliding spellings of a byte string (converted from CLVM, read from hex/decimal/quoted/bareword text) "
    "all pairs must satisfy a==b <=> identical encodings and a==b => equal std hash. Distinct non-trivial = distinct values checked + distinct cross-spelling equal pairs",
    assumptions=COMMON_ASSUME,
    min_nontrivial=1000,
)

register(
    "C08",
    [vh_stage("c08", 4, 16)],
    "atoms at every length-class boundary (0,1,0x3f/0x40,0x1fff/0x2000,0xfffff/0x100000, multi-MiB in thorough) alone and in trees, random trees: sexp_to_stream bytes == clvmr node_to_bytes and sexp_from_stream(bytes)==x; "
    "decoder differential on every byte string of length <=2/<=3, truncations at every offset of valid encodings, flipped prefix bits, over-long prefixes, trailing garbage, random bytes: ours Ok(v) => clvmr Ok(v). "
    "Distinct non-trivial = distinct inputs on which our decoder returned a value (compared with clvmr) or distinct round-tripped values",
    assumptions=COMMON_ASSUME,
    min_nontrivial=1000,
)

register(
    "C09",
    [vh_stage("c09", 8, 16)],
    "every atom of length 0..2 (and length 3 over a 60-symbol alphabet quick / all 256 thorough) alone, in head position, non-head position, improper tail and nested head, plus random trees over all printable classes: "
    "assemble(disassemble(x,v))==x for v=0,1,2; fixed integer mode: parse_sexp(print(from_clvm(x))) converts back to x and assemble(print(from_clvm(x)))==x. Distinct non-trivial = distinct (value, route) that round-tripped",
    assumptions=COMMON_ASSUME,
    min_nontrivial=1000,
)


def evidence(pid, plan, merged, tier, seed, wall, nviol, known_hits):
    c = merged["counters"]
    cov = {
        "evaluations": int(c.get("evaluations", 0)),
        "distinct_nontrivial": len(merged["distinct"]),
        "rule": RULES[pid],
        "samples": merged["samples"][:12] or [{"note": "no sample recorded"}],
        "counters": {k: v for k, v in sorted(c.items())},
        "observed_sets": {k: sorted(v)[:80] for k, v in merged["sets"].items()},
        "inconclusive": int(sum(v for k, v in c.items() if k.startswith("inconclusive."))),
        "inconclusive_samples": merged["inconclusive"][:6],
        "known_finding_hits": known_hits,
        "extra": merged["extra"],
    }
    if plan.get("exhaustive"):
        cov["exhaustive"] = True
    return {
        "property_id": pid,
        "tier": tier if tier in ("quick", "thorough") else "quick",
        "seed": seed,
        "level": LEVELS[pid],
        "coverage": cov,
        "assumptions": plan["assumptions"],
        "wall_s": round(wall, 1),
        "violations": nviol,
    }


def replay(pid, plan, path):
    with open(path) as f:
        j = json.load(f)
    v = j.get("violation", j)
    eng = v.get("engine") or pid.lower()
    import subprocess

    p = subprocess.run([D.VH, eng, "--replay", path, "--tier", j.get("tier", "quick"), "--seed", str(j.get("seed", 1))], env=D.ENV)
    return p.returncode
