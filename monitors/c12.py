"""C12 — debugger trace vs consensus.

The Rust engine `c12` steps programs with the library's CldbRun / cldb_hierarchy and judges every row
against clvmr.  This stage adds the REAL `cldb` binary: for a sample of the same (program, arguments)
pairs it runs `cldb -x` and `cldb -x -t`, parses the YAML it prints and requires the same rows / the
same tree the in-process run produced (those were judged row by row), so the verdict carries over to
what a user of the tool sees."""
import json
import os
import subprocess

import yaml

import driver as D
import plans


def norm(x):
    if isinstance(x, dict):
        return {str(k): norm(v) for k, v in x.items() if not str(k).endswith("Location")}
    if isinstance(x, list):
        return [norm(v) for v in x]
    return str(x)


def run_cldb(flags, c, cwd):
    try:
        p = subprocess.run([D.repo_bin("cldb"), "-x"] + flags + [c["prog_hex"], c["env_hex"]], cwd=cwd, stdout=subprocess.PIPE, stderr=subprocess.PIPE, text=True, timeout=120)
        return p.returncode, p.stdout
    except subprocess.TimeoutExpired:
        return -999, ""


def stage(ctx):
    prep = plans.vh_stage("c12", 16, 16)
    m = prep(ctx)
    outdir = os.path.join(ctx["outroot"], "c12")
    cases = []
    for fn in sorted(os.listdir(outdir)):
        if fn.endswith(".cases.jsonl"):
            with open(os.path.join(outdir, fn)) as f:
                cases += [json.loads(l) for l in f if l.strip()]
    limit = 160 if ctx["tier"] == "quick" else 2000
    cases = cases[:limit]

    def count(k, n=1):
        m["counters"][k] = m["counters"].get(k, 0) + n

    from concurrent.futures import ThreadPoolExecutor

    def one(c):
        return c, run_cldb([], c, outdir), run_cldb(["-t"], c, outdir)

    with ThreadPoolExecutor(max_workers=D.NCPU) as ex:
        res = list(ex.map(one, cases))
    for c, (rc1, so1), (rc2, so2) in res:
        count("real_cldb_runs", 2)
        rec = {"engine": "c12", "case": c["id"], "program_hex": c["prog_hex"][:400], "env_hex": c["env_hex"][:200], "consensus": c["consensus"]}
        if rc1 == -999 or rc2 == -999:
            m.setdefault("inconclusive", []).append({"kind": "real_cldb_timeout", "case": c["id"]})
            continue
        try:
            plain = norm(yaml.safe_load(so1))
            tree = norm(yaml.safe_load(so2))
        except Exception as e:  # unparseable output is itself a defect of the tool's output
            m["violations"].append(dict({"kind": "real_cldb_output_is_not_yaml", "error": str(e)[:200], "stdout": so1[:300]}, **rec))
            continue
        if plain != norm(c["rows"]):
            k = next((i for i, (a, b) in enumerate(zip(plain or [], norm(c["rows"]))) if a != b), None)
            m["violations"].append(dict({"kind": "real_cldb_rows_differ_from_library_rows", "first_difference": k, "binary": (plain or [])[k] if k is not None and plain else str(plain)[:200],
                                         "library": norm(c["rows"])[k] if k is not None else None, "rows_binary": len(plain or []), "rows_library": len(c["rows"])}, **rec))
        else:
            count("real_cldb_plain_identical")
        if tree != norm(c["tree"]):
            m["violations"].append(dict({"kind": "real_cldb_tree_differs_from_library_tree", "binary": str(tree)[:300], "library": str(norm(c["tree"]))[:300]}, **rec))
        else:
            count("real_cldb_tree_identical")
    return m
