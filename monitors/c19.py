"""C19 — the compiled output file is replaced atomically.

Observation level: the system-call boundary (strace).  The durable state of the file system can
only change at system calls, so killing the process immediately before each traced call of the
output-writing window enumerates *every* crash point; injecting errno values at the same calls
enumerates the fault sequences; writers and readers racing on one path give the schedules."""
import json
import os
import re
import shutil
import subprocess
import threading
import time

import driver as D

TRACE_SET = "%file,write,close,fchmod,fchmodat,ftruncate,fsync,fdatasync,link,linkat"
LINE = re.compile(r"^(\d+)\s+(\w+)\((.*)\)\s+=\s+(-?\d+|\?)(.*)$")

PROG_A = "(mod (X Y) (include *standard-cl-23*) (defun f (A B) (+ A (* B 17))) (f X Y))\n"
PROG_B = "(mod (X) (include *standard-cl-21*) (list X (sha256 X) 12345678901234567890))\n"
PROG_CLASSIC = "(mod (X Y) (defun g (A) (* A A)) (+ (g X) Y))\n"


def child_cmd(entry, inp, out):
    if entry == "rust":
        return [D.VH, "c19-child", inp, out]
    code = "import sys, chialisp; r = chialisp.compile_clvm(sys.argv[1], sys.argv[2], []); print('OK', r)"
    return ["/usr/bin/python3", "-c", code, inp, out]


def child_env(entry):
    env = dict(D.ENV)
    if entry == "python":
        env["PYTHONPATH"] = D.PYMOD_DIR
        env["PYTHONDONTWRITEBYTECODE"] = "1"
    return env


def run_traced(entry, inp, out, trace, inject=None, timeout=60):
    cmd = ["strace", "-f", "-o", trace, "-e", "trace=" + TRACE_SET]
    for i in inject or []:
        cmd += ["--inject=" + i]
    cmd += child_cmd(entry, inp, out)
    try:
        p = subprocess.run(cmd, env=child_env(entry), stdout=subprocess.PIPE, stderr=subprocess.PIPE, text=True, timeout=timeout)
        return p.returncode, p.stdout, p.stderr
    except subprocess.TimeoutExpired:
        return -999, "", "timeout"


def parse_trace(path):
    ev = []
    with open(path, errors="replace") as f:
        for line in f:
            m = LINE.match(line.rstrip("\n"))
            if m:
                ev.append({"pid": m.group(1), "sys": m.group(2), "args": m.group(3), "ret": m.group(4), "tail": m.group(5), "raw": line.strip()})
            elif "+++ killed by" in line:
                ev.append({"pid": line.split()[0], "sys": "+killed", "args": "", "ret": "", "tail": "", "raw": line.strip()})
    return ev


def main_pid(ev):
    return ev[0]["pid"] if ev else None


def window(ev, outdir):
    """Indices (into ev) of the traced calls of the main process from the first call naming the
    output directory to the end."""
    pid = main_pid(ev)
    idx = [i for i, e in enumerate(ev) if e["pid"] == pid and not e["sys"].startswith("+")]
    first = next((i for i in idx if outdir in ev[i]["args"]), None)
    if first is None:
        return []
    return [i for i in idx if i >= first]


def occurrence(ev, i):
    """1-based invocation count of ev[i]'s syscall within its process (strace's when= counter)."""
    pid, s = ev[i]["pid"], ev[i]["sys"]
    return sum(1 for e in ev[: i + 1] if e["pid"] == pid and e["sys"] == s)


def read_state(path):
    try:
        with open(path, "rb") as f:
            return f.read()
    except FileNotFoundError:
        return None


def audit_trace(ev, out, outdir):
    """The output path is only ever the target of a rename from a completely written sibling."""
    problems = []
    fds = {}
    written = {}
    renamed_from = None
    for e in ev:
        s, a = e["sys"], e["args"]
        if s in ("openat", "open", "creat") and e["ret"].lstrip("-").isdigit() and int(e["ret"]) >= 0:
            m = re.search(r'"([^"]*)"', a)
            path = m.group(1) if m else ""
            fds[e["ret"]] = path
            if path == out and re.search(r"O_WRONLY|O_RDWR|O_TRUNC|O_CREAT|O_APPEND", a):
                problems.append("output path opened for writing: " + e["raw"][:160])
        elif s == "write" and e["ret"].isdigit():
            fd = a.split(",")[0].strip()
            written[fds.get(fd, fd)] = written.get(fds.get(fd, fd), 0) + int(e["ret"])
        elif s in ("unlink", "unlinkat", "truncate", "ftruncate") and out in a and e["ret"] == "0":
            problems.append("output path removed or truncated: " + e["raw"][:160])
        elif s in ("rename", "renameat", "renameat2") and e["ret"] == "0":
            paths = re.findall(r'"([^"]*)"', a)
            if len(paths) >= 2 and paths[-1] == out:
                src = paths[0]
                if os.path.dirname(src) != outdir:
                    problems.append("renamed from another directory: " + e["raw"][:160])
                renamed_from = src
        elif s in ("link", "linkat") and out in a and e["ret"] == "0":
            problems.append("output path hard-linked: " + e["raw"][:160])
    return problems, renamed_from, written


class Scenario:
    def __init__(self, root, name, entry, prev, new_src, expected_new):
        self.dir = os.path.join(root, name)
        shutil.rmtree(self.dir, ignore_errors=True)
        os.makedirs(os.path.join(self.dir, "out"))
        self.entry = entry
        self.prev = prev
        self.inp = os.path.join(self.dir, "in.clsp")
        self.outdir = os.path.join(self.dir, "out")
        self.out = os.path.join(self.outdir, "prog.hex")
        self.new_src = new_src
        self.expected_new = expected_new
        self.old = None

    def reset(self):
        for f in os.listdir(self.outdir):
            os.remove(os.path.join(self.outdir, f))
        with open(self.inp, "w") as f:
            f.write(self.new_src)
        now = time.time()
        if self.prev == "absent":
            self.old = None
        else:
            self.old = self.expected_new if self.prev == "same" else b"ff01ff02ff0380\n"
            with open(self.out, "wb") as f:
                f.write(self.old)
            os.utime(self.out, (now - 100, now - 100))
        os.utime(self.inp, (now - 10, now - 10))


def expected_output(entry_root, src, name):
    d = os.path.join(entry_root, "expect-" + name)
    shutil.rmtree(d, ignore_errors=True)
    os.makedirs(d)
    inp, out = os.path.join(d, "in.clsp"), os.path.join(d, "out.hex")
    with open(inp, "w") as f:
        f.write(src)
    p = subprocess.run(child_cmd("rust", inp, out), env=child_env("rust"), stdout=subprocess.PIPE, stderr=subprocess.PIPE, text=True)
    if p.returncode != 0:
        raise D.HarnessError(f"cannot compute the expected output: {p.stdout} {p.stderr}")
    return read_state(out)


def enumerate_scenario(sc, m, thorough):
    def count(k, n=1):
        m["counters"][k] = m["counters"].get(k, 0) + n

    def violation(kind, **kw):
        rec = {"kind": kind, "engine": "c19", "entry": sc.entry, "previous_state": sc.prev}
        rec.update(kw)
        m["violations"].append(rec)

    base_trace = os.path.join(sc.dir, "base.trace")
    sc.reset()
    allowed = [sc.old, sc.expected_new]
    rc, so, se = run_traced(sc.entry, sc.inp, sc.out, base_trace)
    count("evaluations")
    ev = parse_trace(base_trace)
    win = window(ev, sc.outdir)
    if rc != 0 or not so.startswith("OK") or not win:
        violation("baseline_run_failed", rc=rc, stdout=so[-200:], stderr=se[-200:])
        return
    final = read_state(sc.out)
    if final != sc.expected_new:
        violation("baseline_output_differs", got=(final or b"")[:80].decode("latin1"), expected=sc.expected_new[:80].decode("latin1"))
    problems, renamed_from, written = audit_trace(ev, sc.out, sc.outdir)
    for p in problems:
        violation("output_path_not_replaced_by_rename", detail=p)
    if renamed_from is None and sc.prev != "same":
        violation("no_rename_onto_output_path", trace=[e["raw"][:120] for e in (ev[i] for i in win)][:12])
    if renamed_from is not None and written.get(renamed_from, 0) != len(sc.expected_new):
        violation("temp_file_not_completely_written_before_rename", written=written.get(renamed_from, 0), expected=len(sc.expected_new))
    sample = [ev[i]["raw"][:140] for i in win][:14]
    if len(m["samples"]) < 4:
        m["samples"].append({"entry": sc.entry, "previous_state": sc.prev, "window": sample})
    count("window_syscalls", len(win))

    # crash enumeration: kill immediately before every call of the window, and let the last one finish
    for i in win:
        e = ev[i]
        j = occurrence(ev, i)
        sc.reset()
        tr = os.path.join(sc.dir, "kill.trace")
        rc, so, se = run_traced(sc.entry, sc.inp, sc.out, tr, inject=[f"{e['sys']}:signal=KILL:when={j}"])
        count("evaluations")
        kev = parse_trace(tr)
        died = any(x["sys"] == "+killed" for x in kev)
        last = [x for x in kev if x["pid"] == main_pid(kev) and not x["sys"].startswith("+")]
        aligned = died and last and last[-1]["sys"] == e["sys"] and last[-1]["ret"] == "?"
        if not aligned:
            count("inconclusive.injection_not_aligned")
            continue
        count("crash_points")
        got = read_state(sc.out)
        m["distinct"].add(f"{sc.entry}|{sc.prev}|kill|{e['sys']}#{j}")
        if got not in allowed:
            violation("output_path_torn_after_crash", crash_before=e["raw"][:160], content=(got or b"<absent>")[:80].decode("latin1"), content_len=len(got or b""),
                      old_len=len(sc.old or b""), new_len=len(sc.expected_new))
        # no reader may ever see a partial file either: the temp file is the only partial thing
    # fault enumeration
    errs = ["ENOSPC", "EIO", "EACCES", "EXDEV"] if thorough else ["ENOSPC", "EACCES"]
    for i in win:
        e = ev[i]
        if e["sys"] in ("statx", "newfstatat", "stat", "lstat", "access", "readlink", "getcwd"):
            continue
        if e["sys"] == "write" and e["args"].startswith("1,"):
            continue  # stdout of the child
        j = occurrence(ev, i)
        for err in errs:
            sc.reset()
            tr = os.path.join(sc.dir, "err.trace")
            rc, so, se = run_traced(sc.entry, sc.inp, sc.out, tr, inject=[f"{e['sys']}:error={err}:when={j}"])
            count("evaluations")
            kev = parse_trace(tr)
            hit = any(err in x["tail"] and "INJECTED" in x["tail"] for x in kev)
            if not hit:
                count("inconclusive.injection_not_aligned")
                continue
            count("fault_points")
            got = read_state(sc.out)
            m["distinct"].add(f"{sc.entry}|{sc.prev}|{err}|{e['sys']}#{j}")
            if got not in allowed:
                violation("output_path_torn_after_fault", fault=f"{err} at {e['raw'][:140]}", content=(got or b"<absent>")[:80].decode("latin1"), content_len=len(got or b""))
            write_side = (sc.outdir in e["args"] and e["sys"] in ("openat", "renameat", "rename", "renameat2", "fchmod")) or (e["sys"] in ("write", "close", "fsync") and not e["args"].startswith("1,"))
            reads_output = e["sys"] == "openat" and sc.out in e["args"] and "O_RDONLY" in e["args"]
            if sc.prev == "same" and write_side and not reads_output and e["sys"] != "close":
                # the new contents equal the old: the call must still succeed when the file cannot be rewritten
                if not so.startswith("OK"):
                    violation("same_contents_but_call_failed_when_rewrite_failed", fault=f"{err} at {e['raw'][:140]}", stdout=so[-200:])
                else:
                    count("same_contents_best_effort_ok")


def concurrency(root, m, entry, nwriters, expected, thorough):
    def count(k, n=1):
        m["counters"][k] = m["counters"].get(k, 0) + n

    d = os.path.join(root, f"conc-{entry}-{nwriters}")
    shutil.rmtree(d, ignore_errors=True)
    os.makedirs(os.path.join(d, "out"))
    out = os.path.join(d, "out", "prog.hex")
    old = b"ff01ff02ff0380\n"
    with open(out, "wb") as f:
        f.write(old)
    now = time.time()
    os.utime(out, (now - 100, now - 100))
    srcs = [PROG_A, PROG_B, PROG_CLASSIC]
    allowed = {old} | {expected[s] for s in srcs}
    stop = threading.Event()
    seen = {}
    bad = []

    def reader():
        while not stop.is_set():
            try:
                with open(out, "rb") as f:
                    c = f.read()
            except FileNotFoundError:
                c = None
            seen[c] = seen.get(c, 0) + 1
            if c not in allowed and len(bad) < 5:
                bad.append(c)

    readers = [threading.Thread(target=reader) for _ in range(2)]
    for r in readers:
        r.start()
    procs = []
    rounds = 8 if thorough else 4
    for rnd in range(rounds):
        procs = []
        for w in range(nwriters):
            src = srcs[(w + rnd) % len(srcs)]
            inp = os.path.join(d, f"in{w}.clsp")
            with open(inp, "w") as f:
                f.write(src)
            os.utime(inp, (time.time(), time.time()))
            # injected delays at the suspension points between the critical steps (after the temporary file is opened and
            # before it is written; after it is written; before the rename), different for every writer and round
            k = (w * 7 + rnd * 3) % 5
            d_before_write = 3000 * ((k + rnd) % 4)
            d_after_write = 2000 * (1 + k)
            d_before_rename = 2500 * ((w + 2 * rnd) % 5)
            cmd = ["strace", "-f", "-o", "/dev/null", "-e", "trace=write,renameat,openat", f"--inject=write:delay_enter={d_before_write}:delay_exit={d_after_write}", f"--inject=renameat:delay_enter={d_before_rename}"] + child_cmd(entry, inp, out)
            procs.append(subprocess.Popen(cmd, env=child_env(entry), stdout=subprocess.PIPE, stderr=subprocess.PIPE, text=True))
        for p in procs:
            p.communicate(timeout=120)
            count("evaluations")
            count("concurrent_writer_runs")
    stop.set()
    for r in readers:
        r.join()
    count("reader_observations", sum(seen.values()))
    count("reader_distinct_contents", len(seen))
    m["distinct"].add(f"{entry}|concurrent|{nwriters}|{len(seen)}")
    for c in bad:
        m["violations"].append({"kind": "reader_saw_partial_or_foreign_content", "engine": "c19", "entry": entry, "writers": nwriters, "content": (c or b"<absent>")[:80].decode("latin1"), "content_len": len(c or b"")})
    final = read_state(out)
    if final not in allowed:
        m["violations"].append({"kind": "final_content_not_one_of_the_writers", "engine": "c19", "entry": entry, "writers": nwriters, "content_len": len(final or b"")})


def stage(ctx):
    root = os.path.join(ctx["outroot"], "c19")
    shutil.rmtree(root, ignore_errors=True)
    os.makedirs(root)
    m = D.empty_merge()
    expected = {s: expected_output(root, s, str(i)) for i, s in enumerate([PROG_A, PROG_B, PROG_CLASSIC])}
    states = ["absent", "same", "different"]
    jobs = []
    for entry in ["rust", "python"]:
        for prev in states:
            for si, src in enumerate([PROG_A, PROG_CLASSIC] if ctx["thorough"] else [PROG_A]):
                jobs.append(Scenario(root, f"{entry}-{prev}-{si}", entry, prev, src, expected[src]))
    from concurrent.futures import ThreadPoolExecutor

    parts = []

    def run_job(sc):
        mm = D.empty_merge()
        enumerate_scenario(sc, mm, ctx["thorough"])
        return mm

    with ThreadPoolExecutor(max_workers=min(8, D.NCPU)) as ex:
        parts = list(ex.map(run_job, jobs))
    for p in parts:
        D.merge_into(m, p)
    for entry in ["rust", "python"]:
        for nw in ([1, 2, 4, 8] if ctx["thorough"] else [2, 8]):
            concurrency(root, m, entry, nw, expected, ctx["thorough"])
    m["extra"]["states"] = states
    m["extra"]["note_readonly"] = "the checks run as root, for whom permission bits do not make a file or directory read-only; the read-only states are therefore produced by injecting EACCES at every write-side system call instead"
    return m
