// Shared "program case" machinery: a generated program, argument trees, reference outcomes.
#![allow(dead_code)]

use std::collections::BTreeSet;

use serde_json::{json, Value as J};

use crate::common::*;
use crate::gen::*;
use crate::refi::*;

pub struct Case {
    pub id: String,
    pub prog: Program,
    pub features: BTreeSet<String>,
    pub args: Vec<V>,
    pub refs: Vec<RefOutcome>,
}

impl Case {
    pub fn text(&self, d: Dialect) -> String {
        render_program(&self.prog, d, false)
    }
    pub fn has(&self, f: &str) -> bool {
        self.features.contains(f)
    }
    pub fn ref_values(&self) -> usize {
        self.refs.iter().filter(|r| matches!(r, RefOutcome::Val(_))).count()
    }
    pub fn distinct_ref_values(&self) -> usize {
        let s: BTreeSet<Vec<u8>> = self.refs.iter().filter_map(|r| match r { RefOutcome::Val(v) => Some(v.ser()), _ => None }).collect();
        s.len()
    }
    pub fn uses_abstraction(&self) -> bool {
        ["defun", "defun-inline", "let", "let*", "assign", "assign-inline", "assign-lambda", "lambda", "defmacro", "defconst", "defconstant", "rest_call", "nested_mod", "at_capture", "nested_params", "dotted_params"]
            .iter()
            .any(|k| self.features.contains(*k))
    }
    pub fn structural_hash(&self) -> u64 {
        fnv_s(&self.text(Dialect::Cl21))
    }
    pub fn j(&self, d: Dialect) -> J {
        json!({"case": self.id, "dialect": d.name(), "source": self.text(d), "features": self.features.iter().cloned().collect::<Vec<_>>()})
    }
    pub fn harness_errors(&self) -> Vec<String> {
        self.refs.iter().filter_map(|r| match r { RefOutcome::Harness(m) => Some(m.clone()), _ => None }).collect()
    }
}

pub fn make_case(rng: &mut Rng, cfg: &GenCfg, id: String, nargs: usize) -> Case {
    let prog = {
        let mut g = Gen::new(rng, cfg.clone());
        g.gen_program()
    };
    finish_case(rng, prog, id, nargs)
}

pub fn finish_case(rng: &mut Rng, prog: Program, id: String, nargs: usize) -> Case {
    let features = program_features(&prog);
    let mut args: Vec<V> = vec![];
    for i in 0..nargs {
        let a = gen_args(rng, &prog.params);
        if i + 1 == nargs && nargs > 2 {
            args.push(mutate_args(rng, &a));
        } else {
            args.push(a);
        }
    }
    let refs: Vec<RefOutcome> = args.iter().map(|a| run_program(&prog, a)).collect();
    Case { id, prog, features, args, refs }
}

/// A program with exactly `n` parameters (shape class `shape`) that returns a function of every
/// parameter (so a wrong path for any of them changes the result).
pub fn param_sweep_program(rng: &mut Rng, n: usize, shape: usize, which: usize) -> Program {
    let names: Vec<(String, Ty)> = (0..n).map(|i| (format!("A{i}"), Ty::Int)).collect();
    let params = match shape {
        0 => Pat::flat(&names, None),
        1 => {
            // dotted: the last parameter takes the tail
            let mut ns = names.clone();
            let last = ns.pop().unwrap();
            if ns.is_empty() { Pat::Var(last.0, last.1) } else { Pat::flat(&ns, Some(last)) }
        }
        _ => {
            // nested: groups of three
            let mut items: Vec<Pat> = vec![];
            let mut i = 0;
            while i < n {
                let k = (n - i).min(3);
                if k == 1 {
                    items.push(Pat::Var(names[i].0.clone(), Ty::Int));
                } else {
                    items.push(Pat::flat(&names[i..i + k], None));
                }
                i += k;
            }
            let mut p = Pat::Nil;
            for it in items.into_iter().rev() {
                p = Pat::Pair(Box::new(it), Box::new(p));
            }
            p
        }
    };
    let body = match which {
        0 => {
            // weighted sum: every parameter contributes with a distinct weight
            let mut terms: Vec<Expr> = vec![];
            for (i, (nm, _)) in names.iter().enumerate() {
                terms.push(Expr::Prim("*", vec![Expr::Var(nm.clone()), Expr::Lit(Lit::Int((i as i64 + 1) * 1000 + 7))]));
            }
            Expr::Prim("+", terms)
        }
        1 => Expr::List(names.iter().map(|(nm, _)| Expr::Var(nm.clone())).collect()),
        2 => {
            // through a helper taking all parameters, returning the k-th
            let k = rng.below(n);
            Expr::Var(names[k].0.clone())
        }
        _ => {
            let k = n - 1;
            Expr::Prim("+", vec![Expr::Var(names[k].0.clone()), Expr::Var(names[0].0.clone())])
        }
    };
    Program { params, helpers: vec![], body, ret: Ty::Int }
}

/// Argument tree with pairwise distinct leaves for a pattern.
pub fn distinct_args(p: &Pat, ctr: &mut i64) -> V {
    match p {
        Pat::Nil => V::nil(),
        Pat::Var(_, _) => {
            *ctr += 1;
            V::int(*ctr * 13 + 1)
        }
        Pat::At(_, q) => distinct_args(q, ctr),
        Pat::Pair(a, b) => {
            let x = distinct_args(a, ctr);
            let y = distinct_args(b, ctr);
            V::cons(x, y)
        }
    }
}
