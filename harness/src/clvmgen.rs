// CLVM-level generators: exhaustive small trees, grammar-directed expressions, random hostile
// trees, path-atom families, environment synthesis.
#![allow(dead_code)]

use crate::common::*;

// ------------------------------------------------------------------------------------------------
// paths

/// Decode a path atom the way CLVM does: big-endian unsigned, leading zero bytes ignored; bits are
/// consumed from the least significant end; 0 = first, 1 = rest; the top set bit terminates.
pub fn path_bits(b: &[u8]) -> Option<Vec<bool>> {
    let mut i = 0;
    while i < b.len() && b[i] == 0 {
        i += 1;
    }
    let b = &b[i..];
    if b.is_empty() {
        return None; // path 0: nil
    }
    let mut bits = vec![];
    for byte in b.iter().rev() {
        for k in 0..8 {
            bits.push((byte >> k) & 1 == 1);
        }
    }
    while let Some(false) = bits.last() {
        bits.pop();
    }
    bits.pop(); // the terminating 1
    Some(bits)
}

pub fn bits_to_path(bits: &[bool]) -> Vec<u8> {
    // inverse of path_bits, minimal unsigned big-endian bytes
    let mut all: Vec<bool> = bits.to_vec();
    all.push(true);
    let nbytes = (all.len() + 7) / 8;
    let mut out = vec![0u8; nbytes];
    for (i, bit) in all.iter().enumerate() {
        if *bit {
            out[nbytes - 1 - i / 8] |= 1 << (i % 8);
        }
    }
    out
}

#[derive(Default)]
struct Trie {
    l: Option<Box<Trie>>,
    r: Option<Box<Trie>>,
}

fn trie_insert(t: &mut Trie, bits: &[bool]) {
    let mut cur = t;
    for b in bits {
        if *b {
            cur = cur.r.get_or_insert_with(Default::default);
        } else {
            cur = cur.l.get_or_insert_with(Default::default);
        }
    }
}

fn trie_build(t: &Trie, ctr: &mut u64, pad: usize) -> V {
    if t.l.is_none() && t.r.is_none() {
        return pad_tree(ctr, pad);
    }
    let l = match &t.l {
        Some(x) => trie_build(x, ctr, pad),
        None => leaf(ctr),
    };
    let r = match &t.r {
        Some(x) => trie_build(x, ctr, pad),
        None => leaf(ctr),
    };
    V::cons(l, r)
}

fn leaf(ctr: &mut u64) -> V {
    *ctr += 1;
    // pairwise distinct, never nil, mixes 1- and 2-byte atoms
    V::A(int_to_bytes((*ctr as i128) * 7 + 100))
}

fn pad_tree(ctr: &mut u64, depth: usize) -> V {
    if depth == 0 {
        leaf(ctr)
    } else {
        V::cons(pad_tree(ctr, depth - 1), pad_tree(ctr, depth - 1))
    }
}

/// An environment in which every given path resolves, with pairwise-distinct leaves; `pad` extra
/// complete levels hang below every requested position (so f/r applied to the result also work).
pub fn env_for_paths(paths: &[Vec<u8>], pad: usize) -> V {
    let mut t = Trie::default();
    for p in paths {
        if let Some(bits) = path_bits(p) {
            if bits.len() <= 200 {
                trie_insert(&mut t, &bits);
            }
        }
    }
    let mut ctr = 0;
    trie_build(&t, &mut ctr, pad)
}

pub fn complete_env(depth: usize) -> V {
    let mut ctr = 0;
    pad_tree(&mut ctr, depth)
}

/// Collect every atom of a program that could act as a path (all atoms; over-approximation).
pub fn atoms_of(v: &V, out: &mut Vec<Vec<u8>>) {
    match v {
        V::A(b) => {
            if !b.is_empty() && out.len() < 64 {
                out.push(b.clone())
            }
        }
        V::P(a, b) => {
            atoms_of(a, out);
            atoms_of(b, out);
        }
    }
}

/// The path-atom families named by C04: 1..9 bytes, all-ones, top-bit-set, zero-padded, powers of
/// two, values around 2^31/2^32/2^63/2^64.
pub fn path_family(rng: &mut Rng) -> Vec<u8> {
    let n = 1 + rng.below(9);
    match rng.below(9) {
        0 => vec![0xff; n],
        1 => {
            let mut b = rng.bytes(n);
            b[0] |= 0x80;
            b
        }
        2 => {
            let mut b = vec![0u8; 1 + rng.below(2)];
            let tn = 1 + rng.below(3);
            let mut t = rng.bytes(tn);
            if t[0] == 0 {
                t[0] = 1;
            }
            b.append(&mut t);
            b
        }
        3 => {
            let k = rng.below(70);
            bits_to_path(&vec![false; k])
        }
        4 => {
            let base: u128 = *rng.pick(&[1u128 << 31, 1u128 << 32, 1u128 << 63, 1u128 << 64, 1u128 << 24, 1u128 << 16]);
            let d = rng.range(-2, 2) as i128;
            let v = (base as i128 + d) as u128;
            let mut b = v.to_be_bytes().to_vec();
            while b.len() > 1 && b[0] == 0 {
                b.remove(0);
            }
            b
        }
        5 => {
            // exactly 4 bytes with the top bit set (the classic 31st-parameter shape)
            let mut b = rng.bytes(4);
            b[0] |= 0x80;
            b
        }
        6 => {
            let k = 1 + rng.below(40);
            let bits: Vec<bool> = (0..k).map(|_| rng.chance(1, 2)).collect();
            bits_to_path(&bits)
        }
        7 => vec![rng.below(64) as u8 + 1],
        _ => {
            let mut b = rng.bytes(n);
            if b[0] == 0 {
                b[0] = 1;
            }
            b
        }
    }
}

// ------------------------------------------------------------------------------------------------
// exhaustive raw trees over an alphabet: all binary trees with `leaves` leaves, leaves from alphabet

pub fn catalan_shapes(leaves: usize) -> Vec<Shape> {
    if leaves == 1 {
        return vec![Shape::Leaf];
    }
    let mut out = vec![];
    for l in 1..leaves {
        for a in catalan_shapes(l) {
            for b in catalan_shapes(leaves - l) {
                out.push(Shape::Node(Box::new(a.clone()), Box::new(b)));
            }
        }
    }
    out
}

#[derive(Clone, Debug)]
pub enum Shape {
    Leaf,
    Node(Box<Shape>, Box<Shape>),
}

pub fn fill_shape(s: &Shape, alphabet: &[V], idx: &mut u64) -> V {
    match s {
        Shape::Leaf => {
            let k = (*idx % alphabet.len() as u64) as usize;
            *idx /= alphabet.len() as u64;
            alphabet[k].clone()
        }
        Shape::Node(a, b) => {
            let l = fill_shape(a, alphabet, idx);
            let r = fill_shape(b, alphabet, idx);
            V::cons(l, r)
        }
    }
}

pub fn reduced_alphabet() -> Vec<V> {
    // q a i c f r l x = + -  and paths 1(all),2,3,5,6,7 are already among them; plus nil, 11, 0x00
    let mut v: Vec<V> = [1u8, 2, 3, 4, 5, 6, 7, 8, 9, 16, 17, 11].iter().map(|b| V::A(vec![*b])).collect();
    v.push(V::nil());
    v
}

/// Number of raw trees with exactly `leaves` leaves over the alphabet.
pub fn raw_count(leaves: usize, k: usize) -> u64 {
    catalan_shapes(leaves).len() as u64 * (k as u64).pow(leaves as u32)
}

pub fn raw_tree(leaves: usize, alphabet: &[V], shapes: &[Shape], index: u64) -> V {
    let per = (alphabet.len() as u64).pow(leaves as u32);
    let s = &shapes[(index / per) as usize];
    let mut i = index % per;
    fill_shape(s, alphabet, &mut i)
}

// ------------------------------------------------------------------------------------------------
// grammar-directed exhaustive expressions by size

#[derive(Clone)]
pub struct Gram {
    pub by_size: Vec<Vec<V>>, // by_size[n] = expressions of size n (n>=1)
}

fn op(o: u8, args: &[V]) -> V {
    V::cons(V::A(vec![o]), V::list(args))
}

pub fn quote(v: V) -> V {
    V::cons(V::A(vec![1]), v)
}

impl Gram {
    pub fn build(max: usize) -> Gram {
        let paths: Vec<V> = [1u8, 2, 3, 5, 7, 4, 6, 11].iter().map(|b| V::A(vec![*b])).collect();
        let data: Vec<V> = vec![
            V::nil(),
            V::int(1),
            V::int(2),
            V::A(vec![0]),
            V::list(&[V::int(1)]),
            V::cons(V::int(2), V::int(3)),
            V::list(&[V::int(1), V::int(2)]),
            // data that is itself a program: lets `a` run quoted code
            V::A(vec![2]),
            op(5, &[V::A(vec![1])]),
            op(16, &[V::A(vec![2]), V::A(vec![5])]),
        ];
        let mut by_size: Vec<Vec<V>> = vec![vec![]; max + 1];
        if max >= 1 {
            by_size[1] = paths.clone();
            by_size[1].push(V::nil());
            for d in data.iter() {
                by_size[1].push(quote(d.clone()));
            }
        }
        for n in 2..=max {
            let mut cur: Vec<V> = vec![];
            // unary ops: f r l x and 1-arg + -
            for o in [5u8, 6, 7, 8, 16, 17] {
                for e in by_size[n - 1].iter() {
                    cur.push(op(o, &[e.clone()]));
                }
            }
            // binary: a c = + -
            for o in [2u8, 4, 9, 16, 17] {
                for s1 in 1..n - 1 {
                    let s2 = n - 1 - s1;
                    if s2 < 1 {
                        continue;
                    }
                    for e1 in by_size[s1].iter() {
                        for e2 in by_size[s2].iter() {
                            cur.push(op(o, &[e1.clone(), e2.clone()]));
                        }
                    }
                }
            }
            // ternary: i
            if n >= 4 {
                for s1 in 1..n - 2 {
                    for s2 in 1..n - 1 - s1 {
                        let s3 = n - 1 - s1 - s2;
                        if s3 < 1 {
                            continue;
                        }
                        for e1 in by_size[s1].iter() {
                            for e2 in by_size[s2].iter() {
                                for e3 in by_size[s3].iter() {
                                    cur.push(op(3, &[e1.clone(), e2.clone(), e3.clone()]));
                                }
                            }
                        }
                    }
                }
            }
            if n == 2 {
                cur.push(op(8, &[]));
                cur.push(op(16, &[]));
            }
            by_size[n] = cur;
        }
        Gram { by_size }
    }
}

pub fn standard_envs() -> Vec<V> {
    vec![
        V::nil(),
        V::int(5),
        V::list(&[V::int(10), V::int(20), V::int(30)]),
        V::cons(
            V::cons(V::int(1), V::int(2)),
            V::cons(V::list(&[V::int(3), V::int(4)]), V::int(9)),
        ),
        complete_env(4),
    ]
}

// ------------------------------------------------------------------------------------------------
// random expressions over the full operator set

pub struct OpInfo {
    pub code: &'static [u8],
    pub min: usize,
    pub max: usize,
    pub kind: u8, // 0 any, 1 int args, 2 bytes args, 3 special
}

pub fn full_ops() -> Vec<OpInfo> {
    vec![
        OpInfo { code: &[3], min: 3, max: 3, kind: 0 },
        OpInfo { code: &[4], min: 2, max: 2, kind: 0 },
        OpInfo { code: &[5], min: 1, max: 1, kind: 0 },
        OpInfo { code: &[6], min: 1, max: 1, kind: 0 },
        OpInfo { code: &[7], min: 1, max: 1, kind: 0 },
        OpInfo { code: &[8], min: 0, max: 2, kind: 0 },
        OpInfo { code: &[9], min: 2, max: 2, kind: 2 },
        OpInfo { code: &[10], min: 2, max: 2, kind: 2 },
        OpInfo { code: &[11], min: 0, max: 3, kind: 2 },
        OpInfo { code: &[12], min: 2, max: 3, kind: 3 },
        OpInfo { code: &[13], min: 1, max: 1, kind: 2 },
        OpInfo { code: &[14], min: 0, max: 3, kind: 2 },
        OpInfo { code: &[16], min: 0, max: 3, kind: 1 },
        OpInfo { code: &[17], min: 0, max: 3, kind: 1 },
        OpInfo { code: &[18], min: 0, max: 3, kind: 1 },
        OpInfo { code: &[19], min: 2, max: 2, kind: 1 },
        OpInfo { code: &[20], min: 2, max: 2, kind: 1 },
        OpInfo { code: &[21], min: 2, max: 2, kind: 1 },
        OpInfo { code: &[22], min: 2, max: 2, kind: 3 },
        OpInfo { code: &[23], min: 2, max: 2, kind: 3 },
        OpInfo { code: &[24], min: 0, max: 3, kind: 1 },
        OpInfo { code: &[25], min: 0, max: 3, kind: 1 },
        OpInfo { code: &[26], min: 0, max: 3, kind: 1 },
        OpInfo { code: &[27], min: 1, max: 1, kind: 1 },
        OpInfo { code: &[29], min: 0, max: 0, kind: 0 },
        OpInfo { code: &[30], min: 1, max: 1, kind: 1 },
        OpInfo { code: &[32], min: 1, max: 1, kind: 0 },
        OpInfo { code: &[33], min: 0, max: 3, kind: 0 },
        OpInfo { code: &[34], min: 0, max: 3, kind: 0 },
        OpInfo { code: &[0x30], min: 3, max: 3, kind: 3 },
        OpInfo { code: &[0x3c], min: 3, max: 3, kind: 1 },
        OpInfo { code: &[0x3d], min: 2, max: 2, kind: 1 },
        OpInfo { code: &[0x3e], min: 0, max: 3, kind: 2 },
        OpInfo { code: &[0x38], min: 1, max: 2, kind: 2 },
        OpInfo { code: &[0x3a], min: 0, max: 0, kind: 0 },
    ]
}

pub fn rand_atom(rng: &mut Rng) -> Vec<u8> {
    match rng.below(12) {
        0 => vec![],
        1 => vec![0],
        2 => vec![0, 0],
        3 => vec![0x80],
        4 => vec![0xff],
        5 => vec![0x00, 0x80],
        6 => vec![0xff, 0x7f],
        7 => rng.bytes(32),
        8 => b"hello".to_vec(),
        9 => int_to_bytes(rng.range(-70000, 70000) as i128),
        10 => vec![0x00, 0x05],
        _ => int_to_bytes(rng.range(-130, 130) as i128),
    }
}

pub fn rand_data(rng: &mut Rng, depth: usize) -> V {
    if depth == 0 || rng.chance(1, 2) {
        V::A(rand_atom(rng))
    } else {
        let n = rng.below(4);
        let items: Vec<V> = (0..n).map(|_| rand_data(rng, depth - 1)).collect();
        if rng.chance(1, 6) {
            V::list_with_tail(&items, V::A(rand_atom(rng)))
        } else {
            V::list(&items)
        }
    }
}

/// A random, mostly well-formed expression.  `hostile` (0..100) is the percentage of nodes that are
/// deliberately malformed (improper argument list, wrong arity, operator as odd atom …).
pub fn rand_expr(rng: &mut Rng, depth: usize, ops: &[OpInfo], hostile: u32, paths: &mut Vec<Vec<u8>>) -> V {
    if depth == 0 || rng.chance(1, 4) {
        return match rng.below(5) {
            0 => quote(rand_data(rng, 2)),
            1 => V::nil(),
            2 => {
                let p = path_family(rng);
                paths.push(p.clone());
                V::A(p)
            }
            _ => {
                let p = vec![*rng.pick(&[1u8, 2, 3, 5, 6, 7, 4, 11, 13, 15, 23])];
                paths.push(p.clone());
                V::A(p)
            }
        };
    }
    if rng.chance(hostile, 100) {
        return match rng.below(6) {
            0 => {
                // improper argument list
                let a = rand_expr(rng, depth - 1, ops, hostile, paths);
                V::cons(V::A(vec![*rng.pick(&[4u8, 5, 16, 2, 3])]), V::cons(a, V::A(rand_atom(rng))))
            }
            1 => {
                // wrong arity for a core op
                let n = rng.below(5);
                let args: Vec<V> = (0..n).map(|_| rand_expr(rng, depth - 1, ops, hostile, paths)).collect();
                V::cons(V::A(vec![*rng.pick(&[2u8, 3, 4, 5, 6, 7, 9])]), V::list(&args))
            }
            2 => {
                // operator spelled as an odd atom
                let head = match rng.below(5) {
                    0 => vec![0x00, 0x05],
                    1 => vec![0x3d],
                    2 => vec![0x61],
                    3 => vec![0x71],
                    _ => rand_atom(rng),
                };
                let a = rand_expr(rng, depth - 1, ops, hostile, paths);
                V::cons(V::A(head), V::list(&[a]))
            }
            3 => {
                // ((q . op) args) style head
                let a = rand_expr(rng, depth - 1, ops, hostile, paths);
                V::cons(V::list(&[V::A(vec![1])]), V::list(&[a]))
            }
            4 => {
                let inner = rand_expr(rng, depth - 1, ops, hostile, paths);
                V::cons(V::cons(inner, V::nil()), V::nil())
            }
            _ => rand_data(rng, 3),
        };
    }
    match rng.below(10) {
        0 => {
            // (a (q . E) ENV)
            let mut inner_paths = vec![];
            let e = rand_expr(rng, depth - 1, ops, hostile, &mut inner_paths);
            let envexp = match rng.below(3) {
                0 => V::A(vec![1]),
                1 => {
                    let p = vec![*rng.pick(&[2u8, 3, 5, 7])];
                    paths.push(p.clone());
                    V::A(p)
                }
                _ => {
                    let a = rand_expr(rng, depth - 1, ops, hostile, paths);
                    let b = rand_expr(rng, depth - 1, ops, hostile, paths);
                    op(4, &[a, b])
                }
            };
            if rng.chance(1, 2) {
                // inner paths refer to the outer env when ENV is 1
                paths.extend(inner_paths);
            }
            op(2, &[quote(e), envexp])
        }
        1 => {
            // f/r chains over a path
            let n = rng.below(8);
            let p = path_family(rng);
            paths.push(p.clone());
            let mut e = V::A(p);
            for _ in 0..n {
                e = op(if rng.chance(1, 2) { 5 } else { 6 }, &[e]);
            }
            e
        }
        2 => {
            // c-built structure then f/r
            let a = rand_expr(rng, depth - 1, ops, hostile, paths);
            let b = rand_expr(rng, depth - 1, ops, hostile, paths);
            let c = op(4, &[a, b]);
            if rng.chance(1, 2) {
                op(if rng.chance(1, 2) { 5 } else { 6 }, &[c])
            } else {
                c
            }
        }
        _ => {
            let o = &ops[rng.below(ops.len())];
            let n = o.min + rng.below(o.max - o.min + 1);
            let args: Vec<V> = (0..n)
                .map(|_| {
                    if o.kind != 0 && rng.chance(2, 3) {
                        quote(V::A(rand_atom(rng)))
                    } else {
                        rand_expr(rng, depth - 1, ops, hostile, paths)
                    }
                })
                .collect();
            V::cons(V::A(o.code.to_vec()), V::list(&args))
        }
    }
}
