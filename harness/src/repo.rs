// Thin wrappers that call the REAL /repo entry points and translate results into harness types.
#![allow(dead_code)]

use std::collections::HashMap;
use std::rc::Rc;

use clvmr::allocator::Allocator;
use num_bigint::BigInt;

use chialisp::classic::clvm::__type_compatibility__::{Bytes, BytesFromType, Stream};
use chialisp::classic::clvm::serialize::{sexp_from_stream, sexp_to_stream, SimpleCreateCLVMObject};
use chialisp::classic::clvm_tools::binutils::{assemble, disassemble};
use chialisp::classic::clvm_tools::clvmc::{compile_clvm_text_maybe_opt, CompileError};
use chialisp::classic::clvm_tools::comp_input::RunAndCompileInputData;
use chialisp::classic::clvm_tools::stages::stage_0::{DefaultProgramRunner, TRunProgram};
use chialisp::classic::platform::argparse::ArgumentValue;
use chialisp::compiler::clvm::{convert_from_clvm_rs, convert_to_clvm_rs, run as stepping_run};
use chialisp::compiler::compiler::{compile_file, DefaultCompilerOpts};
use chialisp::compiler::comptypes::{CompileErr, CompilerOpts};
use chialisp::compiler::dialect::{detect_modern, AcceptedDialect};
use chialisp::compiler::optimize::run_optimizer;
use chialisp::compiler::prims::prim_map;
use chialisp::compiler::runtypes::RunFailure;
use chialisp::compiler::sexp::SExp;
use chialisp::compiler::srcloc::Srcloc;

use crate::common::*;

#[derive(Clone, Debug)]
pub struct Loc {
    pub file: String,
    pub line: usize,
    pub col: usize,
    pub until: Option<(usize, usize)>,
}

pub fn loc_of(l: &Srcloc) -> Loc {
    Loc {
        file: (*l.file).clone(),
        line: l.line,
        col: l.col,
        until: l.until.as_ref().map(|u| (u.line, u.col)),
    }
}

#[derive(Clone, Debug)]
pub enum CErr {
    Err { loc: Option<Loc>, msg: String },
    Panic(String),
}

impl CErr {
    pub fn msg(&self) -> String {
        match self {
            CErr::Err { loc, msg } => match loc {
                Some(l) => format!("{}({}):{}: {}", l.file, l.line, l.col, msg),
                None => msg.clone(),
            },
            CErr::Panic(p) => format!("PANIC {p}"),
        }
    }
    pub fn is_panic(&self) -> bool {
        matches!(self, CErr::Panic(_))
    }
}

fn from_compile_err(e: CompileErr) -> CErr {
    CErr::Err {
        loc: Some(loc_of(&e.0)),
        msg: e.1,
    }
}

#[derive(Clone, Debug)]
pub struct Compiled {
    pub prog: V,
    pub symbols: HashMap<String, String>,
    /// text the modern printer / CLI would print (modern builds only)
    pub text: Option<String>,
}

pub fn node_v(a: &Allocator, n: clvmr::allocator::NodePtr) -> V {
    V::from_node(a, n)
}

pub fn sexp_to_v(s: Rc<SExp>) -> Result<V, String> {
    let mut a = Allocator::new();
    match convert_to_clvm_rs(&mut a, s) {
        Ok(n) => Ok(V::from_node(&a, n)),
        Err(e) => Err(format!("{e}")),
    }
}

/// Which dialect the text declares (using the repo's own detector, on the classic-assembled form).
pub fn detect_dialect(text: &str) -> Result<AcceptedDialect, String> {
    let mut a = Allocator::new();
    let n = assemble(&mut a, text).map_err(|e| format!("{e}"))?;
    Ok(detect_modern(&mut a, n))
}

#[derive(Clone, Debug)]
pub struct ModernOpts {
    pub optimize: bool,
    pub frontend_opt: bool,
    pub post_opt: bool, // run the classic CLVM optimiser over the output
}

/// compile_file with an explicit option set (the C02 matrix).
pub fn compile_modern_explicit(
    text: &str,
    filename: &str,
    include_dirs: &[String],
    mo: &ModernOpts,
) -> Result<Compiled, CErr> {
    let text = text.to_string();
    let filename = filename.to_string();
    let include_dirs = include_dirs.to_vec();
    let mo = mo.clone();
    match guard(move || -> Result<Compiled, CErr> {
        let dialect = detect_dialect(&text).map_err(|m| CErr::Err { loc: None, msg: m })?;
        let mut a = Allocator::new();
        let runner: Rc<dyn TRunProgram> = Rc::new(DefaultProgramRunner::new());
        let opts: Rc<dyn CompilerOpts> = Rc::new(DefaultCompilerOpts::new(&filename))
            .set_dialect(dialect)
            .set_search_paths(&include_dirs)
            .set_optimize(mo.optimize)
            .set_frontend_opt(mo.frontend_opt);
        let mut symbols = HashMap::new();
        let res = compile_file(&mut a, runner.clone(), opts, &text, &mut symbols)
            .map_err(from_compile_err)?;
        let res = Rc::new(res);
        let res = if mo.post_opt {
            run_optimizer(&mut a, runner, res).map_err(from_compile_err)?
        } else {
            res
        };
        let t = res.to_string();
        let prog = sexp_to_v(res).map_err(|m| CErr::Err { loc: None, msg: m })?;
        Ok(Compiled {
            prog,
            symbols,
            text: Some(t),
        })
    }) {
        Ok(r) => r,
        Err(p) => Err(CErr::Panic(p)),
    }
}

/// The command-line compiler's own option derivation (RunAndCompileInputData::new + compile_modern),
/// i.e. what `run [-O] [-i dir]… file` does for a program with a sigil.
pub fn compile_cli_modern(
    text: &str,
    filename: Option<&str>,
    include_dirs: &[String],
    dash_o: bool,
) -> Result<Compiled, CErr> {
    let text = text.to_string();
    let filename = filename.map(|s| s.to_string());
    let include_dirs = include_dirs.to_vec();
    match guard(move || -> Result<Compiled, CErr> {
        let mut a = Allocator::new();
        let mut pa: HashMap<String, ArgumentValue> = HashMap::new();
        pa.insert(
            "path_or_code".to_string(),
            ArgumentValue::ArgString(filename.clone(), text.clone()),
        );
        if dash_o {
            pa.insert("optimize".to_string(), ArgumentValue::ArgBool(true));
        }
        pa.insert(
            "include".to_string(),
            ArgumentValue::ArgArray(
                include_dirs
                    .iter()
                    .map(|d| ArgumentValue::ArgString(None, d.clone()))
                    .collect(),
            ),
        );
        let parsed = RunAndCompileInputData::new(&mut a, &pa)
            .map_err(|m| CErr::Err { loc: None, msg: m })?;
        if parsed.dialect.stepping.is_none() {
            return Err(CErr::Err {
                loc: None,
                msg: "HARNESS: not a modern program".to_string(),
            });
        }
        let mut symbols = HashMap::new();
        let res = parsed
            .compile_modern(&mut a, &mut symbols)
            .map_err(from_compile_err)?;
        let t = res.to_string();
        let prog = sexp_to_v(res).map_err(|m| CErr::Err { loc: None, msg: m })?;
        Ok(Compiled {
            prog,
            symbols,
            text: Some(t),
        })
    }) {
        Ok(r) => r,
        Err(p) => Err(CErr::Panic(p)),
    }
}

/// The library entry point (python / wasm / file-to-file): compile_clvm_text_maybe_opt.
pub fn compile_lib(
    text: &str,
    filename: &str,
    include_dirs: &[String],
    do_optimize: bool,
    classic_with_opts: bool,
) -> Result<Compiled, CErr> {
    let text = text.to_string();
    let filename = filename.to_string();
    let include_dirs = include_dirs.to_vec();
    match guard(move || -> Result<Compiled, CErr> {
        let mut a = Allocator::new();
        let opts: Rc<dyn CompilerOpts> =
            Rc::new(DefaultCompilerOpts::new(&filename)).set_search_paths(&include_dirs);
        let mut symbols = HashMap::new();
        match compile_clvm_text_maybe_opt(
            &mut a,
            do_optimize,
            opts.clone(),
            &mut symbols,
            &text,
            &filename,
            classic_with_opts,
        ) {
            Ok(n) => Ok(Compiled {
                prog: V::from_node(&a, n),
                symbols,
                text: None,
            }),
            Err(CompileError::Modern(l, m)) => Err(CErr::Err {
                loc: Some(loc_of(&l)),
                msg: m,
            }),
            Err(CompileError::Classic(n, m)) => Err(CErr::Err {
                loc: None,
                msg: format!("{} :: {}", m, trunc(&disassemble(&a, n, None), 200)),
            }),
        }
    }) {
        Ok(r) => r,
        Err(p) => Err(CErr::Panic(p)),
    }
}

pub fn classic_assemble(text: &str) -> Result<V, String> {
    let text = text.to_string();
    match guard(move || {
        let mut a = Allocator::new();
        assemble(&mut a, &text)
            .map(|n| V::from_node(&a, n))
            .map_err(|e| format!("{e}"))
    }) {
        Ok(r) => r,
        Err(p) => Err(format!("PANIC {p}")),
    }
}

pub fn classic_disassemble(v: &V, ver: Option<usize>) -> Result<String, String> {
    let v = v.clone();
    guard(move || {
        let mut a = Allocator::new();
        let n = v.to_node(&mut a);
        disassemble(&a, n, ver)
    })
    .map_err(|p| format!("PANIC {p}"))
}

pub fn repo_serialize(v: &V) -> Result<Vec<u8>, String> {
    let v = v.clone();
    guard(move || {
        let mut a = Allocator::new();
        let n = v.to_node(&mut a);
        let mut s = Stream::new(None);
        sexp_to_stream(&mut a, n, &mut s);
        s.get_value().data().clone()
    })
    .map_err(|p| format!("PANIC {p}"))
}

pub fn repo_deserialize(b: &[u8]) -> Result<V, String> {
    let b = b.to_vec();
    match guard(move || {
        let mut a = Allocator::new();
        let mut s = Stream::new(Some(Bytes::new(Some(BytesFromType::Raw(b)))));
        sexp_from_stream(&mut a, &mut s, Box::new(SimpleCreateCLVMObject {}))
            .map(|r| V::from_node(&a, r.1))
            .map_err(|e| format!("{e}"))
    }) {
        Ok(r) => r,
        Err(p) => Err(format!("PANIC {p}")),
    }
}

// ---- rich SExp construction (harness-chosen spellings) ----------------------------------------

pub fn hloc() -> Srcloc {
    Srcloc::start("*vh*")
}

#[derive(Clone, Copy, Debug, PartialEq, Eq)]
pub enum Spell {
    /// what convert_from_clvm_rs would produce (delegates to the repo)
    Natural,
    /// Integer when the bytes are a canonical integer, else hex QuotedString
    IntOrHex,
    /// always QuotedString(b'x')
    Hex,
    /// Atom(bytes) (identifier-like)
    Atom,
    /// QuotedString(b'"')
    Str,
}

pub fn v_to_sexp(v: &V, sp: Spell) -> Rc<SExp> {
    match v {
        V::A(b) => Rc::new(atom_sexp(b, sp)),
        V::P(a, b) => {
            // iterative on the right spine
            let mut firsts = vec![v_to_sexp(a, sp)];
            let mut cur: &V = b;
            loop {
                match cur {
                    V::P(x, y) => {
                        firsts.push(v_to_sexp(x, sp));
                        cur = y;
                    }
                    V::A(_) => break,
                }
            }
            let mut tail = v_to_sexp(cur, sp);
            for f in firsts.into_iter().rev() {
                tail = Rc::new(SExp::Cons(hloc(), f, tail));
            }
            tail
        }
    }
}

pub fn atom_sexp(b: &[u8], sp: Spell) -> SExp {
    let l = hloc();
    if b.is_empty() {
        return match sp {
            Spell::Hex => SExp::QuotedString(l, b'x', vec![]),
            Spell::Atom => SExp::Atom(l, vec![]),
            Spell::Str => SExp::QuotedString(l, b'"', vec![]),
            _ => SExp::Nil(l),
        };
    }
    match sp {
        Spell::Natural | Spell::IntOrHex => {
            let canon = BigInt::from_signed_bytes_be(b);
            if canon.to_signed_bytes_be() == b && b != [0] {
                SExp::Integer(l, canon)
            } else {
                SExp::QuotedString(l, b'x', b.to_vec())
            }
        }
        Spell::Hex => SExp::QuotedString(l, b'x', b.to_vec()),
        Spell::Atom => SExp::Atom(l, b.to_vec()),
        Spell::Str => SExp::QuotedString(l, b'"', b.to_vec()),
    }
}

pub fn natural_sexp(v: &V) -> Result<Rc<SExp>, String> {
    let mut a = Allocator::new();
    let n = v.to_node(&mut a);
    convert_from_clvm_rs(&mut a, hloc(), n).map_err(|e| format!("{e}"))
}

#[derive(Clone, Debug, PartialEq, Eq)]
pub enum StepOutcome {
    Val(V),
    Fail(String),
    StepLimit,
    Panic(String),
}

/// The repo's stepping evaluator on rich values.
pub fn stepping_eval(prog: Rc<SExp>, env: Rc<SExp>, limit: usize) -> StepOutcome {
    match guard(move || {
        let mut a = Allocator::new();
        let runner: Rc<dyn TRunProgram> = Rc::new(DefaultProgramRunner::new());
        match stepping_run(&mut a, runner, prim_map(), prog, env, None, Some(limit)) {
            Ok(r) => match sexp_to_v(r) {
                Ok(v) => StepOutcome::Val(v),
                Err(m) => StepOutcome::Fail(format!("convert: {m}")),
            },
            Err(RunFailure::RunErr(_, m)) => {
                if m == "timeout" {
                    StepOutcome::StepLimit
                } else {
                    StepOutcome::Fail(m)
                }
            }
            Err(RunFailure::RunExn(_, x)) => StepOutcome::Fail(format!("raise {x}")),
        }
    }) {
        Ok(r) => r,
        Err(p) => StepOutcome::Panic(p),
    }
}
