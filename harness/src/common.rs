// Shared harness infrastructure: PRNG, harness-owned value type, clvmr oracle helpers,
// event/evidence output, panic capture.
#![allow(dead_code)]

use std::cell::RefCell;
use std::collections::{BTreeMap, BTreeSet};
use std::io::Write;
use std::rc::Rc;

use clvmr::allocator::{Allocator, NodePtr, SExp as CSExp};
use clvmr::chia_dialect::{ChiaDialect, ENABLE_KECCAK_OPS_OUTSIDE_GUARD, NO_UNKNOWN_OPS};
use clvmr::serde::{node_from_bytes, node_to_bytes_limit};
use serde_json::{json, Value as J};

// ------------------------------------------------------------------------------------------------
// PRNG: SplitMix64 (deterministic, seedable, no dependency)

#[derive(Clone)]
pub struct Rng(pub u64);

impl Rng {
    pub fn new(seed: u64) -> Rng {
        let mut r = Rng(seed ^ 0x9E37_79B9_7F4A_7C15);
        r.next();
        r
    }
    pub fn derive(seed: u64, a: u64, b: u64) -> Rng {
        let mut r = Rng::new(seed);
        r.0 ^= a.wrapping_mul(0xBF58_476D_1CE4_E5B9);
        r.next();
        r.0 ^= b.wrapping_mul(0x94D0_49BB_1331_11EB);
        r.next();
        r
    }
    pub fn next(&mut self) -> u64 {
        self.0 = self.0.wrapping_add(0x9E37_79B9_7F4A_7C15);
        let mut z = self.0;
        z = (z ^ (z >> 30)).wrapping_mul(0xBF58_476D_1CE4_E5B9);
        z = (z ^ (z >> 27)).wrapping_mul(0x94D0_49BB_1331_11EB);
        z ^ (z >> 31)
    }
    pub fn below(&mut self, n: usize) -> usize {
        if n == 0 {
            0
        } else {
            (self.next() % (n as u64)) as usize
        }
    }
    pub fn range(&mut self, lo: i64, hi: i64) -> i64 {
        // inclusive
        lo + (self.next() % ((hi - lo + 1) as u64)) as i64
    }
    pub fn chance(&mut self, num: u32, den: u32) -> bool {
        (self.next() % den as u64) < num as u64
    }
    pub fn pick<'a, T>(&mut self, v: &'a [T]) -> &'a T {
        &v[self.below(v.len())]
    }
    pub fn bytes(&mut self, n: usize) -> Vec<u8> {
        (0..n).map(|_| self.next() as u8).collect()
    }
    /// `lo + below(span)` random bytes
    pub fn rbytes(&mut self, lo: usize, span: usize) -> Vec<u8> {
        let n = lo + self.below(span);
        self.bytes(n)
    }
    pub fn shuffle<T>(&mut self, v: &mut [T]) {
        for i in (1..v.len()).rev() {
            let j = self.below(i + 1);
            v.swap(i, j);
        }
    }
}

// ------------------------------------------------------------------------------------------------
// V: the harness' own CLVM value (independent of every /repo type)

#[derive(Clone, PartialEq, Eq, Hash, Debug, PartialOrd, Ord)]
pub enum V {
    A(Vec<u8>),
    P(Rc<V>, Rc<V>),
}

impl V {
    pub fn nil() -> V {
        V::A(vec![])
    }
    pub fn atom(b: &[u8]) -> V {
        V::A(b.to_vec())
    }
    pub fn cons(a: V, b: V) -> V {
        V::P(Rc::new(a), Rc::new(b))
    }
    pub fn int(i: i64) -> V {
        V::A(int_to_bytes(i as i128))
    }
    pub fn list(items: &[V]) -> V {
        let mut r = V::nil();
        for i in items.iter().rev() {
            r = V::cons(i.clone(), r);
        }
        r
    }
    pub fn list_with_tail(items: &[V], tail: V) -> V {
        let mut r = tail;
        for i in items.iter().rev() {
            r = V::cons(i.clone(), r);
        }
        r
    }
    pub fn is_nil(&self) -> bool {
        matches!(self, V::A(b) if b.is_empty())
    }
    pub fn is_pair(&self) -> bool {
        matches!(self, V::P(_, _))
    }
    pub fn first(&self) -> Option<V> {
        match self {
            V::P(a, _) => Some((**a).clone()),
            _ => None,
        }
    }
    pub fn rest(&self) -> Option<V> {
        match self {
            V::P(_, b) => Some((**b).clone()),
            _ => None,
        }
    }
    pub fn proper_list(&self) -> Option<Vec<V>> {
        let mut out = vec![];
        let mut cur = self.clone();
        loop {
            match cur {
                V::A(ref b) if b.is_empty() => return Some(out),
                V::A(_) => return None,
                V::P(a, b) => {
                    out.push((*a).clone());
                    cur = (*b).clone();
                }
            }
        }
    }
    pub fn nodes(&self) -> usize {
        match self {
            V::A(_) => 1,
            V::P(a, b) => 1 + a.nodes() + b.nodes(),
        }
    }
    pub fn to_node(&self, a: &mut Allocator) -> NodePtr {
        // iterative to survive deep right spines
        match self {
            V::A(b) => {
                if b.is_empty() {
                    NodePtr::NIL
                } else {
                    a.new_atom(b).expect("alloc atom")
                }
            }
            V::P(x, y) => {
                // collect right spine
                let mut firsts: Vec<NodePtr> = vec![a_to_node(x, a)];
                let mut cur: &V = y;
                loop {
                    match cur {
                        V::P(x2, y2) => {
                            firsts.push(a_to_node(x2, a));
                            cur = y2;
                        }
                        V::A(_) => break,
                    }
                }
                let mut tail = a_to_node(cur, a);
                for f in firsts.into_iter().rev() {
                    tail = a.new_pair(f, tail).expect("alloc pair");
                }
                tail
            }
        }
    }
    pub fn from_node(a: &Allocator, n: NodePtr) -> V {
        match a.sexp(n) {
            CSExp::Atom => V::A(a.atom(n).as_ref().to_vec()),
            CSExp::Pair(x, y) => {
                let mut firsts = vec![V::from_node(a, x)];
                let mut cur = y;
                loop {
                    match a.sexp(cur) {
                        CSExp::Pair(x2, y2) => {
                            firsts.push(V::from_node(a, x2));
                            cur = y2;
                        }
                        CSExp::Atom => break,
                    }
                }
                let mut tail = V::A(a.atom(cur).as_ref().to_vec());
                for f in firsts.into_iter().rev() {
                    tail = V::cons(f, tail);
                }
                tail
            }
        }
    }
    /// Canonical bytes via the consensus serialiser.
    pub fn ser(&self) -> Vec<u8> {
        let mut a = Allocator::new();
        let n = self.to_node(&mut a);
        node_to_bytes_limit(&a, n, usize::MAX).expect("node_to_bytes")
    }
    pub fn hex(&self) -> String {
        hex::encode(self.ser())
    }
    pub fn from_ser(b: &[u8]) -> Option<V> {
        let mut a = Allocator::new();
        node_from_bytes(&mut a, b).ok().map(|n| V::from_node(&a, n))
    }
    /// Unambiguous text: every atom in hex, nil as (), read identically by the classic assembler and
    /// the modern reader.
    pub fn text(&self) -> String {
        let mut s = String::new();
        self.text_into(&mut s);
        s
    }
    fn text_into(&self, s: &mut String) {
        match self {
            V::A(b) => {
                if b.is_empty() {
                    s.push_str("()");
                } else {
                    s.push_str("0x");
                    s.push_str(&hex::encode(b));
                }
            }
            V::P(a, b) => {
                s.push('(');
                a.text_into(s);
                let mut cur: &V = b;
                loop {
                    match cur {
                        V::P(x, y) => {
                            s.push(' ');
                            x.text_into(s);
                            cur = y;
                        }
                        V::A(bb) => {
                            if !bb.is_empty() {
                                s.push_str(" . ");
                                cur.text_into(s);
                            }
                            break;
                        }
                    }
                }
                s.push(')');
            }
        }
    }
    /// Short human-friendly rendering for evidence samples (ints where small, hex otherwise).
    pub fn show(&self) -> String {
        match self {
            V::A(b) => {
                if b.is_empty() {
                    "()".to_string()
                } else if b.len() <= 2 && int_to_bytes(bytes_to_int(b)) == *b {
                    format!("{}", bytes_to_int(b))
                } else {
                    format!("0x{}", hex::encode(b))
                }
            }
            V::P(a, b) => {
                let mut s = String::from("(");
                s.push_str(&a.show());
                let mut cur: &V = b;
                loop {
                    match cur {
                        V::P(x, y) => {
                            s.push(' ');
                            s.push_str(&x.show());
                            cur = y;
                        }
                        V::A(bb) => {
                            if !bb.is_empty() {
                                s.push_str(" . ");
                                s.push_str(&cur.show());
                            }
                            break;
                        }
                    }
                }
                s.push(')');
                s
            }
        }
    }
}

fn a_to_node(v: &V, a: &mut Allocator) -> NodePtr {
    v.to_node(a)
}

pub fn int_to_bytes(i: i128) -> Vec<u8> {
    if i == 0 {
        return vec![];
    }
    let mut b = i.to_be_bytes().to_vec();
    // strip redundant sign bytes
    while b.len() > 1 {
        if (b[0] == 0x00 && b[1] & 0x80 == 0) || (b[0] == 0xff && b[1] & 0x80 != 0) {
            b.remove(0);
        } else {
            break;
        }
    }
    b
}

pub fn bytes_to_int(b: &[u8]) -> i128 {
    if b.is_empty() {
        return 0;
    }
    let mut v: i128 = if b[0] & 0x80 != 0 { -1 } else { 0 };
    for x in b.iter().take(16) {
        v = (v << 8) | (*x as i128);
    }
    v
}

// ------------------------------------------------------------------------------------------------
// The consensus evaluator (trusted oracle).  Called directly, never through /repo wrappers.

#[derive(Clone, Debug, PartialEq, Eq)]
pub enum Outcome {
    Val(V),
    Fail(String),
    CostCap,
}

impl Outcome {
    pub fn is_val(&self) -> bool {
        matches!(self, Outcome::Val(_))
    }
    pub fn show(&self) -> String {
        match self {
            Outcome::Val(v) => format!("value {}", v.show()),
            Outcome::Fail(m) => format!("fail({m})"),
            Outcome::CostCap => "costcap".to_string(),
        }
    }
    pub fn j(&self) -> J {
        match self {
            Outcome::Val(v) => json!({"value": v.hex(), "show": trunc(&v.show(), 200)}),
            Outcome::Fail(m) => json!({"fail": m}),
            Outcome::CostCap => json!({"costcap": true}),
        }
    }
}

pub const ORACLE_COST_CAP: u64 = 4_000_000_000;

pub fn consensus_dialect() -> ChiaDialect {
    ChiaDialect::new(NO_UNKNOWN_OPS | ENABLE_KECCAK_OPS_OUTSIDE_GUARD)
}

pub fn consensus_run_nodes(a: &mut Allocator, prog: NodePtr, env: NodePtr, cap: u64) -> Outcome {
    let d = consensus_dialect();
    match clvmr::run_program::run_program(a, &d, prog, env, cap) {
        Ok(r) => Outcome::Val(V::from_node(a, r.1)),
        Err(clvmr::error::EvalErr::CostExceeded) => Outcome::CostCap,
        Err(e) => Outcome::Fail(format!("{e}")),
    }
}

pub fn consensus_run(prog: &V, env: &V) -> Outcome {
    consensus_run_cap(prog, env, ORACLE_COST_CAP)
}

pub fn consensus_run_cap(prog: &V, env: &V, cap: u64) -> Outcome {
    let mut a = Allocator::new();
    let p = prog.to_node(&mut a);
    let e = env.to_node(&mut a);
    consensus_run_nodes(&mut a, p, e, cap)
}

/// Apply one operator to already-evaluated arguments under the consensus evaluator.
pub fn consensus_apply_op(op: &[u8], args: &[V]) -> Outcome {
    let quoted: Vec<V> = args
        .iter()
        .map(|a| V::cons(V::A(vec![1]), a.clone()))
        .collect();
    let prog = V::cons(V::A(op.to_vec()), V::list(&quoted));
    consensus_run(&prog, &V::nil())
}

pub fn treehash(v: &V) -> Vec<u8> {
    use sha2::{Digest, Sha256};
    match v {
        V::A(b) => {
            let mut h = Sha256::new();
            h.update([1u8]);
            h.update(b);
            h.finalize().to_vec()
        }
        V::P(a, b) => {
            let l = treehash(a);
            let r = treehash(b);
            let mut h = Sha256::new();
            h.update([2u8]);
            h.update(&l);
            h.update(&r);
            h.finalize().to_vec()
        }
    }
}

// ------------------------------------------------------------------------------------------------
// Panic capture

thread_local! {
    static LAST_PANIC: RefCell<Option<String>> = const { RefCell::new(None) };
    static IN_GUARD: RefCell<u32> = const { RefCell::new(0) };
}

pub fn install_panic_hook() {
    std::panic::set_hook(Box::new(|info| {
        let loc = info
            .location()
            .map(|l| format!("{}:{}:{}", l.file(), l.line(), l.column()))
            .unwrap_or_else(|| "?".to_string());
        let msg = if let Some(s) = info.payload().downcast_ref::<&str>() {
            s.to_string()
        } else if let Some(s) = info.payload().downcast_ref::<String>() {
            s.clone()
        } else {
            "?".to_string()
        };
        if IN_GUARD.with(|g| *g.borrow()) == 0 {
            eprintln!("HARNESS PANIC (outside guard) at {loc}: {msg}");
        }
        LAST_PANIC.with(|p| *p.borrow_mut() = Some(format!("{loc}: {}", trunc(&msg, 300))));
    }));
}

/// Run f, turning a panic into Err(location: message).
pub fn guard<T, F: FnOnce() -> T>(f: F) -> Result<T, String> {
    LAST_PANIC.with(|p| *p.borrow_mut() = None);
    IN_GUARD.with(|g| *g.borrow_mut() += 1);
    let r = std::panic::catch_unwind(std::panic::AssertUnwindSafe(f));
    IN_GUARD.with(|g| *g.borrow_mut() -= 1);
    match r {
        Ok(v) => Ok(v),
        Err(_) => Err(LAST_PANIC
            .with(|p| p.borrow_mut().take())
            .unwrap_or_else(|| "panic (no info)".to_string())),
    }
}

pub fn trunc(s: &str, n: usize) -> String {
    if s.len() <= n {
        s.to_string()
    } else {
        let mut end = n;
        while !s.is_char_boundary(end) {
            end -= 1;
        }
        format!("{}…[{} bytes]", &s[..end], s.len())
    }
}

// ------------------------------------------------------------------------------------------------
// Output: per-shard summary + streaming event log

pub struct Out {
    pub id: String,
    pub shard: usize,
    pub nshards: usize,
    pub seed: u64,
    pub tier: String,
    pub counters: BTreeMap<String, u64>,
    pub sets: BTreeMap<String, BTreeSet<String>>,
    pub samples: Vec<J>,
    pub sample_cap: usize,
    pub violations: Vec<J>,
    pub inconclusive: Vec<J>,
    pub distinct: BTreeSet<u64>,
    pub log: Option<std::io::BufWriter<std::fs::File>>,
    pub extra: BTreeMap<String, J>,
    pub skip: BTreeSet<String>,
    /// first unit index that still has to be run (non-zero after a restart from a checkpoint)
    pub resume_from: usize,
    outdir: String,
    last_checkpoint: std::time::Instant,
}

pub struct Cfg {
    pub shard: usize,
    pub nshards: usize,
    pub seed: u64,
    pub tier: String,
    pub outdir: String,
    pub replay: Option<String>,
    pub rest: Vec<String>,
}

impl Cfg {
    pub fn thorough(&self) -> bool {
        self.tier == "thorough"
    }
    pub fn pick<T: Copy>(&self, quick: T, thorough: T) -> T {
        if self.thorough() {
            thorough
        } else {
            quick
        }
    }
}

impl Out {
    pub fn new(id: &str, cfg: &Cfg) -> Out {
        let mut o = Out::new_fresh(id, cfg);
        if !cfg.outdir.is_empty() {
            let p = format!("{}/{}.partial.json", cfg.outdir, cfg.shard);
            if let Ok(t) = std::fs::read_to_string(&p) {
                if let Ok(j) = serde_json::from_str::<J>(&t) {
                    o.load_partial(&j);
                }
            }
        }
        o
    }

    fn load_partial(&mut self, j: &J) {
        if let Some(m) = j["counters"].as_object() {
            for (k, v) in m {
                self.counters.insert(k.clone(), v.as_u64().unwrap_or(0));
            }
        }
        if let Some(m) = j["sets"].as_object() {
            for (k, v) in m {
                let set: BTreeSet<String> = v.as_array().map(|a| a.iter().filter_map(|x| x.as_str().map(|s| s.to_string())).collect()).unwrap_or_default();
                self.sets.insert(k.clone(), set);
            }
        }
        self.samples = j["samples"].as_array().cloned().unwrap_or_default();
        self.violations = j["violations"].as_array().cloned().unwrap_or_default();
        self.inconclusive = j["inconclusive"].as_array().cloned().unwrap_or_default();
        if let Some(a) = j["distinct"].as_array() {
            for x in a {
                if let Some(s) = x.as_str() {
                    if let Ok(h) = u64::from_str_radix(s, 16) {
                        self.distinct.insert(h);
                    }
                }
            }
        }
        if let Some(m) = j["extra"].as_object() {
            for (k, v) in m {
                self.extra.insert(k.clone(), v.clone());
            }
        }
        self.resume_from = j["next"].as_u64().unwrap_or(0) as usize;
    }

    fn state_json(&self, complete: bool, next: usize) -> J {
        let sets: BTreeMap<String, Vec<String>> = self.sets.iter().map(|(k, v)| (k.clone(), v.iter().cloned().collect())).collect();
        let distinct: Vec<String> = self.distinct.iter().map(|h| format!("{h:016x}")).collect();
        json!({
            "id": self.id, "shard": self.shard, "nshards": self.nshards, "seed": self.seed, "tier": self.tier,
            "counters": self.counters, "sets": sets, "samples": self.samples,
            "violations": self.violations, "inconclusive": self.inconclusive,
            "distinct": distinct, "extra": self.extra, "complete": complete, "next": next,
        })
    }

    /// Save the state so that a restarted shard continues at unit `next` (at most every 2 s).
    pub fn checkpoint(&mut self, next: usize) {
        if self.outdir.is_empty() || self.last_checkpoint.elapsed().as_millis() < 2000 {
            return;
        }
        self.last_checkpoint = std::time::Instant::now();
        self.flush();
        let p = format!("{}/{}.partial.json", self.outdir, self.shard);
        let tmp = format!("{p}.tmp");
        if std::fs::write(&tmp, serde_json::to_string(&self.state_json(false, next)).unwrap()).is_ok() {
            let _ = std::fs::rename(&tmp, &p);
        }
    }

    fn new_fresh(id: &str, cfg: &Cfg) -> Out {
        let log = if cfg.outdir.is_empty() {
            None
        } else {
            std::fs::create_dir_all(&cfg.outdir).ok();
            let p = format!("{}/{}.events.jsonl", cfg.outdir, cfg.shard);
            Some(std::io::BufWriter::new(
                std::fs::OpenOptions::new().create(true).append(true).open(p).expect("open event log"),
            ))
        };
        Out {
            id: id.to_string(),
            shard: cfg.shard,
            nshards: cfg.nshards,
            seed: cfg.seed,
            tier: cfg.tier.clone(),
            counters: BTreeMap::new(),
            sets: BTreeMap::new(),
            samples: vec![],
            sample_cap: 6,
            violations: vec![],
            inconclusive: vec![],
            distinct: BTreeSet::new(),
            log,
            extra: BTreeMap::new(),
            skip: {
                let mut sk = BTreeSet::new();
                if !cfg.outdir.is_empty() {
                    if let Ok(t) = std::fs::read_to_string(format!("{}/{}.skip", cfg.outdir, cfg.shard)) {
                        for l in t.lines() {
                            if !l.trim().is_empty() {
                                sk.insert(l.trim().to_string());
                            }
                        }
                    }
                }
                sk
            },
            resume_from: 0,
            outdir: cfg.outdir.clone(),
            last_checkpoint: std::time::Instant::now(),
        }
    }
    pub fn count(&mut self, k: &str) {
        *self.counters.entry(k.to_string()).or_insert(0) += 1;
    }
    pub fn add(&mut self, k: &str, n: u64) {
        *self.counters.entry(k.to_string()).or_insert(0) += n;
    }
    pub fn get(&self, k: &str) -> u64 {
        *self.counters.get(k).unwrap_or(&0)
    }
    pub fn seen(&mut self, set: &str, item: &str) {
        let s = self.sets.entry(set.to_string()).or_default();
        if s.len() < 5000 {
            s.insert(item.to_string());
        }
    }
    /// Record a distinct non-trivial case by structural hash.
    pub fn nontrivial(&mut self, h: u64) {
        self.distinct.insert(h);
    }
    pub fn sample(&mut self, j: J) {
        if self.samples.len() < self.sample_cap {
            self.samples.push(j);
        }
    }
    pub fn event(&mut self, j: &J) {
        if let Some(l) = self.log.as_mut() {
            let _ = writeln!(l, "{}", j);
        }
    }
    /// Mark the start of a case that may hang, abort or exhaust memory.  Returns false when the
    /// driver asked for this case to be skipped (it killed a previous run of this shard in it).
    pub fn begin(&mut self, case_id: &str) -> bool {
        if self.skip.contains(case_id) {
            self.count("inconclusive.skipped_after_watchdog_or_death");
            return false;
        }
        self.event(&json!({"begin": case_id, "t": now_ms()}));
        self.flush();
        WATCH_START_MS.store(now_ms(), std::sync::atomic::Ordering::SeqCst);
        true
    }
    pub fn end(&mut self, case_id: &str) {
        WATCH_START_MS.store(0, std::sync::atomic::Ordering::SeqCst);
        self.event(&json!({"end": case_id, "t": now_ms()}));
        self.flush();
    }
    pub fn flush(&mut self) {
        if let Some(l) = self.log.as_mut() {
            let _ = l.flush();
        }
    }
    pub fn violation(&mut self, j: J) {
        self.count("violations");
        self.event(&json!({"violation": j}));
        self.flush();
        // keep at most 25 records per (kind, signature) so that one frequent class cannot crowd
        // out a different one; the counters keep the full totals
        let key = format!("viol.{}|{}", j.get("kind").and_then(|k| k.as_str()).unwrap_or("?"), j.get("sig").and_then(|k| k.as_str()).unwrap_or("-"));
        let n = *self.counters.get(&key).unwrap_or(&0);
        self.count(&key);
        let cap: u64 = std::env::var("VH_VIOL_CAP").ok().and_then(|x| x.parse().ok()).unwrap_or(25);
        if n < cap {
            self.violations.push(j);
        }
    }
    pub fn inconclusive(&mut self, kind: &str, j: J) {
        self.count(&format!("inconclusive.{kind}"));
        if self.inconclusive.len() < 20 {
            self.inconclusive.push(json!({"kind": kind, "case": j}));
        }
    }
    pub fn finish(mut self, cfg: &Cfg) {
        self.flush();
        let j = self.state_json(true, usize::MAX);
        if cfg.outdir.is_empty() {
            println!("{}", serde_json::to_string_pretty(&j).unwrap());
        } else {
            let p = format!("{}/{}.summary.json", cfg.outdir, cfg.shard);
            std::fs::write(&p, serde_json::to_string(&j).unwrap()).expect("write summary");
            let _ = std::fs::remove_file(format!("{}/{}.partial.json", cfg.outdir, cfg.shard));
        }
    }
}

// ------------------------------------------------------------------------------------------------
// In-process watchdog.  A case that runs longer than the limit, or drives the process above the
// memory limit, ends the process with a distinctive exit code after flushing a marker; the driver
// restarts the shard with that case on its skip list and reports the case as INCONCLUSIVE (a
// wall-clock limit is never a verdict).

static WATCH_START_MS: std::sync::atomic::AtomicU64 = std::sync::atomic::AtomicU64::new(0);
static WATCH_LIMIT_MS: std::sync::atomic::AtomicU64 = std::sync::atomic::AtomicU64::new(0);

fn now_ms() -> u64 {
    std::time::SystemTime::now().duration_since(std::time::UNIX_EPOCH).unwrap().as_millis() as u64
}

fn rss_mb() -> u64 {
    std::fs::read_to_string("/proc/self/statm")
        .ok()
        .and_then(|s| s.split_whitespace().nth(1).and_then(|x| x.parse::<u64>().ok()))
        .map(|pages| pages * 4096 / (1024 * 1024))
        .unwrap_or(0)
}

pub fn watchdog_start(limit_s: u64, mem_mb: u64) {
    use std::sync::atomic::Ordering;
    WATCH_LIMIT_MS.store(limit_s * 1000, Ordering::SeqCst);
    std::thread::spawn(move || loop {
        std::thread::sleep(std::time::Duration::from_millis(250));
        let st = WATCH_START_MS.load(Ordering::SeqCst);
        if std::env::var("VH_DEBUG_WATCH").is_ok() {
            eprintln!("watch: st={} now={} lim={}", st, now_ms(), WATCH_LIMIT_MS.load(Ordering::SeqCst));
        }
        if st != 0 {
            let lim = WATCH_LIMIT_MS.load(Ordering::SeqCst);
            if now_ms().saturating_sub(st) > lim {
                eprintln!("WATCHDOG: case exceeded {} ms", lim);
                std::process::exit(86);
            }
            if rss_mb() > mem_mb {
                eprintln!("WATCHDOG: process exceeded {} MiB", mem_mb);
                std::process::exit(87);
            }
        }
    });
}

pub fn fnv(data: &[u8]) -> u64 {
    let mut h: u64 = 0xcbf29ce484222325;
    for b in data {
        h ^= *b as u64;
        h = h.wrapping_mul(0x100000001b3);
    }
    h
}

pub fn fnv_s(s: &str) -> u64 {
    fnv(s.as_bytes())
}

/// Run `f` on a thread with the given stack size and wait for it.
pub fn on_big_stack<T: Send + 'static, F: FnOnce() -> T + Send + 'static>(mb: usize, f: F) -> T {
    std::thread::Builder::new()
        .stack_size(mb * 1024 * 1024)
        .spawn(f)
        .expect("spawn")
        .join()
        .expect("engine thread panicked")
}
