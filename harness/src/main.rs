mod clvmgen;
mod common;
mod engines;
mod gen;
mod mutate;
mod progs;
mod refi;
mod shrink;
mod repo;

use common::*;

fn main() {
    let argv: Vec<String> = std::env::args().collect();
    if argv.len() < 2 {
        eprintln!("usage: vh <engine> [--shard i] [--nshards n] [--seed s] [--tier quick|thorough] [--out dir] [--replay file] [args…]");
        std::process::exit(2);
    }
    let engine = argv[1].clone();
    let mut cfg = Cfg {
        shard: 0,
        nshards: 1,
        seed: 1,
        tier: "quick".to_string(),
        outdir: String::new(),
        replay: None,
        rest: vec![],
    };
    let mut i = 2;
    while i < argv.len() {
        match argv[i].as_str() {
            "--shard" => {
                cfg.shard = argv[i + 1].parse().unwrap();
                i += 2;
            }
            "--nshards" => {
                cfg.nshards = argv[i + 1].parse().unwrap();
                i += 2;
            }
            "--seed" => {
                cfg.seed = argv[i + 1].parse().unwrap();
                i += 2;
            }
            "--tier" => {
                cfg.tier = argv[i + 1].clone();
                i += 2;
            }
            "--out" => {
                cfg.outdir = argv[i + 1].clone();
                i += 2;
            }
            "--replay" => {
                cfg.replay = Some(argv[i + 1].clone());
                i += 2;
            }
            _ => {
                cfg.rest.push(argv[i].clone());
                i += 1;
            }
        }
    }
    if engine == "c19-child" {
        // single threaded on purpose: the syscall-level fault injection counts per thread
        std::process::exit(engines::dispatch(&engine, &cfg));
    }
    install_panic_hook();
    watchdog_start(std::env::var("VH_CASE_LIMIT_S").ok().and_then(|x| x.parse().ok()).unwrap_or(90), std::env::var("VH_MEM_MB").ok().and_then(|x| x.parse().ok()).unwrap_or(3000));
    let stack_mb = engines::stack_mb(&engine);
    let code = on_big_stack(stack_mb, move || engines::dispatch(&engine, &cfg));
    std::process::exit(code);
}
