// Typed program AST owned by the harness, random generator, and dialect-aware pretty printer.
// The reference interpreter (refi.rs) evaluates this AST directly, never the text.
#![allow(dead_code)]

use std::collections::BTreeSet;
use std::rc::Rc;

use crate::common::*;

#[derive(Clone, Copy, Debug, PartialEq, Eq, PartialOrd, Ord)]
pub enum Ty {
    Int,
    Bytes,
    List, // proper list of ints
    Any,
    Clo, // closure taking one Int returning Int (applied with (a f (list x)))
}

#[derive(Clone, Debug)]
pub enum Pat {
    Nil,
    Var(String, Ty),
    Pair(Box<Pat>, Box<Pat>),
    At(String, Box<Pat>),
}

impl Pat {
    pub fn vars(&self, out: &mut Vec<(String, Ty)>) {
        match self {
            Pat::Nil => {}
            Pat::Var(n, t) => out.push((n.clone(), *t)),
            Pat::Pair(a, b) => {
                a.vars(out);
                b.vars(out);
            }
            Pat::At(n, p) => {
                out.push((n.clone(), Ty::Any));
                p.vars(out);
            }
        }
    }
    pub fn render(&self) -> String {
        match self {
            Pat::Nil => "()".to_string(),
            Pat::Var(n, _) => n.clone(),
            Pat::At(n, p) => format!("(@ {} {})", n, p.render()),
            Pat::Pair(_, _) => {
                let mut s = String::from("(");
                let mut cur = self;
                let mut first = true;
                loop {
                    match cur {
                        Pat::Pair(a, b) => {
                            if !first {
                                s.push(' ');
                            }
                            first = false;
                            s.push_str(&a.render());
                            cur = b;
                        }
                        Pat::Nil => break,
                        other => {
                            s.push_str(" . ");
                            s.push_str(&other.render());
                            break;
                        }
                    }
                }
                s.push(')');
                s
            }
        }
    }
    pub fn flat(names: &[(String, Ty)], tail: Option<(String, Ty)>) -> Pat {
        let mut p = match tail {
            Some((n, t)) => Pat::Var(n, t),
            None => Pat::Nil,
        };
        for (n, t) in names.iter().rev() {
            p = Pat::Pair(Box::new(Pat::Var(n.clone(), *t)), Box::new(p));
        }
        p
    }
    /// number of top-level positional elements and whether there is a tail variable
    pub fn positional(&self) -> (usize, bool) {
        let mut n = 0;
        let mut cur = self;
        loop {
            match cur {
                Pat::Pair(_, b) => {
                    n += 1;
                    cur = b;
                }
                Pat::Nil => return (n, false),
                _ => return (n, true),
            }
        }
    }
    pub fn top_items(&self) -> (Vec<&Pat>, Option<&Pat>) {
        let mut v = vec![];
        let mut cur = self;
        loop {
            match cur {
                Pat::Pair(a, b) => {
                    v.push(&**a);
                    cur = b;
                }
                Pat::Nil => return (v, None),
                other => return (v, Some(other)),
            }
        }
    }
}

#[derive(Clone, Debug, PartialEq, Eq)]
pub enum Lit {
    Int(i64),
    BigInt(String), // decimal text of a multi-limb integer
    Str(Vec<u8>, u8), // bytes, quote char
    Hex(Vec<u8>),
    Nil,
}

#[derive(Clone, Copy, Debug, PartialEq, Eq)]
pub enum LetKind {
    Let,
    LetStar,
    Assign,
    AssignInline,
    AssignLambda,
}

#[derive(Clone, Debug)]
pub enum Expr {
    Lit(Lit),
    Var(String),
    Prim(&'static str, Vec<Expr>),
    If(Box<Expr>, Box<Expr>, Box<Expr>),
    List(Vec<Expr>),
    Call(String, Vec<Expr>, Option<Box<Expr>>),
    Let(LetKind, Vec<(Pat, Expr)>, Box<Expr>),
    Lambda(Vec<String>, Pat, Box<Expr>),
    Apply(Box<Expr>, Box<Expr>),
    Quote(V),
    MacroCall(String, Vec<Expr>),
    ModVal(Rc<Program>),
    QQ(Box<QQ>),
}

#[derive(Clone, Debug)]
pub enum QQ {
    Data(V),
    Unquote(Expr),
    Cons(Box<QQ>, Box<QQ>),
}

#[derive(Clone, Debug)]
pub struct Fun {
    pub name: String,
    pub inline: bool,
    pub params: Pat,
    pub body: Expr,
    pub ret: Ty,
    pub recursive: bool,
}

#[derive(Clone, Debug)]
pub struct Mac {
    pub name: String,
    pub params: Vec<String>,
    pub template: Expr, // Var(param) marks a hole
}

#[derive(Clone, Debug)]
pub enum Helper {
    Fun(Fun),
    ConstSimple(String, Lit, Ty),
    ConstData(String, V),
    ConstComplex(String, Expr, Ty),
    Mac(Mac),
}

#[derive(Clone, Debug)]
pub struct Program {
    pub params: Pat,
    pub helpers: Vec<Helper>,
    pub body: Expr,
    pub ret: Ty,
}

#[derive(Clone, Copy, Debug, PartialEq, Eq, PartialOrd, Ord)]
pub enum Dialect {
    Classic,
    Cl21,
    StrictCl21,
    Cl22,
    Cl23,
    Cl231,
    Cl24,
}

pub const MODERN: [Dialect; 6] = [Dialect::Cl21, Dialect::StrictCl21, Dialect::Cl22, Dialect::Cl23, Dialect::Cl231, Dialect::Cl24];

impl Dialect {
    pub fn sigil(&self) -> Option<&'static str> {
        match self {
            Dialect::Classic => None,
            Dialect::Cl21 => Some("*standard-cl-21*"),
            Dialect::StrictCl21 => Some("*strict-cl-21*"),
            Dialect::Cl22 => Some("*standard-cl-22*"),
            Dialect::Cl23 => Some("*standard-cl-23*"),
            Dialect::Cl231 => Some("*standard-cl-23.1*"),
            Dialect::Cl24 => Some("*standard-cl-24*"),
        }
    }
    pub fn name(&self) -> &'static str {
        match self {
            Dialect::Classic => "classic",
            Dialect::Cl21 => "cl21",
            Dialect::StrictCl21 => "strict-cl21",
            Dialect::Cl22 => "cl22",
            Dialect::Cl23 => "cl23",
            Dialect::Cl231 => "cl23.1",
            Dialect::Cl24 => "cl24",
        }
    }
    pub fn strict(&self) -> bool {
        matches!(self, Dialect::StrictCl21 | Dialect::Cl23 | Dialect::Cl231 | Dialect::Cl24)
    }
    pub fn int_fix(&self) -> bool {
        matches!(self, Dialect::Cl231 | Dialect::Cl24 | Dialect::Classic)
    }
    pub fn stepping(&self) -> i32 {
        match self {
            Dialect::Classic => 0,
            Dialect::Cl21 | Dialect::StrictCl21 => 21,
            Dialect::Cl22 => 22,
            Dialect::Cl23 | Dialect::Cl231 => 23,
            Dialect::Cl24 => 24,
        }
    }
}

// ------------------------------------------------------------------------------------------------
// features (for coverage accounting, dialect projection and known-finding attribution)

pub fn lit_noncanonical(l: &Lit) -> bool {
    match l {
        Lit::Hex(b) => {
            !b.is_empty() && (b.as_slice() == [0] || num_bigint::BigInt::from_signed_bytes_be(b).to_signed_bytes_be() != *b)
        }
        _ => false,
    }
}

pub fn expr_features(e: &Expr, f: &mut BTreeSet<String>) {
    match e {
        Expr::Lit(l) => {
            match l {
                Lit::Int(i) if *i < 0 => {
                    f.insert("lit_negative".into());
                }
                Lit::BigInt(_) => {
                    f.insert("lit_bigint".into());
                }
                Lit::Str(_, q) => {
                    f.insert(if *q == b'"' { "lit_dquote".into() } else { "lit_squote".into() });
                }
                Lit::Hex(_) => {
                    f.insert("lit_hex".into());
                }
                _ => {}
            }
            if lit_noncanonical(l) {
                f.insert("zero_led_literal".into());
            }
        }
        Expr::Var(_) => {}
        Expr::Prim(op, args) => {
            f.insert(format!("op:{op}"));
            for a in args {
                expr_features(a, f);
            }
        }
        Expr::If(a, b, c) => {
            f.insert("if".into());
            expr_features(a, f);
            expr_features(b, f);
            expr_features(c, f);
        }
        Expr::List(v) => {
            f.insert("list".into());
            for a in v {
                expr_features(a, f);
            }
        }
        Expr::Call(_, args, rest) => {
            f.insert("call".into());
            for a in args {
                expr_features(a, f);
            }
            if let Some(r) = rest {
                f.insert("rest_call".into());
                expr_features(r, f);
            }
        }
        Expr::Let(k, bs, body) => {
            f.insert(
                match k {
                    LetKind::Let => "let",
                    LetKind::LetStar => "let*",
                    LetKind::Assign => "assign",
                    LetKind::AssignInline => "assign-inline",
                    LetKind::AssignLambda => "assign-lambda",
                }
                .into(),
            );
            for (p, e) in bs {
                if !matches!(p, Pat::Var(_, _)) {
                    f.insert("destructuring_binding".into());
                }
                expr_features(e, f);
            }
            expr_features(body, f);
        }
        Expr::Lambda(caps, _, body) => {
            f.insert("lambda".into());
            if !caps.is_empty() {
                f.insert("lambda_captures".into());
            }
            expr_features(body, f);
        }
        Expr::Apply(a, b) => {
            f.insert("apply".into());
            expr_features(a, f);
            expr_features(b, f);
        }
        Expr::Quote(_) => {
            f.insert("quote".into());
        }
        Expr::MacroCall(_, args) => {
            f.insert("macro_call".into());
            for a in args {
                expr_features(a, f);
            }
        }
        Expr::ModVal(p) => {
            f.insert("nested_mod".into());
            for x in program_features(p) {
                f.insert(x);
            }
        }
        Expr::QQ(q) => {
            f.insert("qq".into());
            qq_features(q, f);
        }
    }
}

fn qq_features(q: &QQ, f: &mut BTreeSet<String>) {
    match q {
        QQ::Data(_) => {}
        QQ::Unquote(e) => expr_features(e, f),
        QQ::Cons(a, b) => {
            qq_features(a, f);
            qq_features(b, f);
        }
    }
}

fn pat_features(p: &Pat, top: bool, f: &mut BTreeSet<String>) {
    match p {
        Pat::At(_, q) => {
            f.insert("at_capture".into());
            pat_features(q, false, f);
        }
        Pat::Pair(a, b) => {
            if matches!(**a, Pat::Pair(_, _)) {
                f.insert("nested_params".into());
            }
            pat_features(a, false, f);
            pat_features(b, top, f);
        }
        Pat::Var(_, _) => {
            if top {
                f.insert("dotted_params".into());
            }
        }
        Pat::Nil => {}
    }
}

pub fn program_features(p: &Program) -> BTreeSet<String> {
    let mut f = BTreeSet::new();
    pat_features(&p.params, true, &mut f);
    let mut vs = vec![];
    p.params.vars(&mut vs);
    f.insert(format!("nparams:{:02}", vs.len()));
    for h in p.helpers.iter() {
        match h {
            Helper::Fun(fun) => {
                f.insert(if fun.inline { "defun-inline".into() } else { "defun".into() });
                if fun.recursive {
                    f.insert("recursion".into());
                }
                pat_features(&fun.params, true, &mut f);
                expr_features(&fun.body, &mut f);
            }
            Helper::ConstSimple(_, l, _) => {
                f.insert("defconstant".into());
                if lit_noncanonical(l) {
                    f.insert("zero_led_literal".into());
                }
            }
            Helper::ConstData(_, _) => {
                f.insert("defconstant".into());
            }
            Helper::ConstComplex(_, e, _) => {
                f.insert("defconst".into());
                expr_features(e, &mut f);
            }
            Helper::Mac(m) => {
                f.insert("defmacro".into());
                expr_features(&m.template, &mut f);
            }
        }
    }
    expr_features(&p.body, &mut f);
    f
}

/// Which dialects can express this program.
pub fn supported(p: &Program, d: Dialect) -> bool {
    let f = program_features(p);
    let has = |k: &str| f.contains(k);
    match d {
        Dialect::Classic => {
            !(has("let") || has("let*") || has("assign") || has("assign-inline") || has("assign-lambda") || has("lambda") || has("rest_call") || has("at_capture") || has("nested_mod") || has("apply") && has("lambda"))
        }
        _ => {
            // classic-style defmacro is not offered by the strict dialects
            !(d.strict() && has("defmacro"))
        }
    }
}

// ------------------------------------------------------------------------------------------------
// pretty printer

pub fn render_lit(l: &Lit) -> String {
    match l {
        Lit::Int(i) => format!("{i}"),
        Lit::BigInt(s) => s.clone(),
        Lit::Str(b, q) => format!("{}{}{}", *q as char, String::from_utf8_lossy(b), *q as char),
        Lit::Hex(b) => format!("0x{}", hex::encode(b)),
        Lit::Nil => "()".to_string(),
    }
}

pub fn render_data(v: &V) -> String {
    // quoted data: numbers in decimal where canonical (never names that classic would read as opcodes)
    match v {
        V::A(b) => {
            if b.is_empty() {
                "()".into()
            } else {
                let n = num_bigint::BigInt::from_signed_bytes_be(b);
                if n.to_signed_bytes_be() == *b && !(b.len() == 1 && b[0] == 0) {
                    n.to_string()
                } else {
                    format!("0x{}", hex::encode(b))
                }
            }
        }
        V::P(a, b) => {
            let mut s = String::from("(");
            s.push_str(&render_data(a));
            let mut cur: &V = b;
            loop {
                match cur {
                    V::P(x, y) => {
                        s.push(' ');
                        s.push_str(&render_data(x));
                        cur = y;
                    }
                    V::A(t) => {
                        if !t.is_empty() {
                            s.push_str(" . ");
                            s.push_str(&render_data(cur));
                        }
                        break;
                    }
                }
            }
            s.push(')');
            s
        }
    }
}

pub fn render_expr(e: &Expr, d: Dialect) -> String {
    match e {
        Expr::Lit(l) => render_lit(l),
        Expr::Var(n) => n.clone(),
        Expr::Prim(op, args) => {
            let mut s = format!("({op}");
            for a in args {
                s.push(' ');
                s.push_str(&render_expr(a, d));
            }
            s.push(')');
            s
        }
        Expr::If(a, b, c) => format!("(if {} {} {})", render_expr(a, d), render_expr(b, d), render_expr(c, d)),
        Expr::List(v) => {
            let mut s = String::from("(list");
            for a in v {
                s.push(' ');
                s.push_str(&render_expr(a, d));
            }
            s.push(')');
            s
        }
        Expr::Call(n, args, rest) => {
            let mut s = format!("({n}");
            for a in args {
                s.push(' ');
                s.push_str(&render_expr(a, d));
            }
            if let Some(r) = rest {
                s.push_str(" &rest ");
                s.push_str(&render_expr(r, d));
            }
            s.push(')');
            s
        }
        Expr::Let(k, bs, body) => match k {
            LetKind::Let | LetKind::LetStar => {
                let mut s = format!("({} (", if *k == LetKind::Let { "let" } else { "let*" });
                for (i, (p, e)) in bs.iter().enumerate() {
                    if i > 0 {
                        s.push(' ');
                    }
                    s.push_str(&format!("({} {})", p.render(), render_expr(e, d)));
                }
                s.push_str(&format!(") {})", render_expr(body, d)));
                s
            }
            _ => {
                let kw = match k {
                    LetKind::Assign => "assign",
                    LetKind::AssignInline => "assign-inline",
                    _ => "assign-lambda",
                };
                let mut s = format!("({kw}");
                for (p, e) in bs.iter() {
                    s.push_str(&format!(" {} {}", p.render(), render_expr(e, d)));
                }
                s.push_str(&format!(" {})", render_expr(body, d)));
                s
            }
        },
        Expr::Lambda(caps, params, body) => {
            let pr = params.render();
            // params render as a list "(P1 P2)"; splice the capture clause in front
            let inner = if pr == "()" { String::new() } else { pr[1..pr.len() - 1].to_string() };
            if caps.is_empty() && d == Dialect::Classic {
                format!("(lambda ({}) {})", inner, render_expr(body, d))
            } else {
                let c = if caps.is_empty() { "(&)".to_string() } else { format!("(& {})", caps.join(" ")) };
                format!("(lambda ({}{}{}) {})", c, if inner.is_empty() { "" } else { " " }, inner, render_expr(body, d))
            }
        }
        Expr::Apply(f, a) => format!("(a {} {})", render_expr(f, d), render_expr(a, d)),
        Expr::Quote(v) => format!("(q . {})", render_data(v)),
        Expr::MacroCall(n, args) => {
            let mut s = format!("({n}");
            for a in args {
                s.push(' ');
                s.push_str(&render_expr(a, d));
            }
            s.push(')');
            s
        }
        Expr::ModVal(p) => render_program(p, d, true),
        Expr::QQ(q) => format!("(qq {})", render_qq(q, d)),
    }
}

fn render_qq(q: &QQ, d: Dialect) -> String {
    match q {
        QQ::Data(v) => render_data(v),
        QQ::Unquote(e) => format!("(unquote {})", render_expr(e, d)),
        QQ::Cons(_, _) => {
            let mut s = String::from("(");
            let mut cur = q;
            let mut first = true;
            loop {
                match cur {
                    QQ::Cons(a, b) => {
                        if !first {
                            s.push(' ');
                        }
                        first = false;
                        s.push_str(&render_qq(a, d));
                        cur = b;
                    }
                    QQ::Data(v) if v.is_nil() => break,
                    other => {
                        s.push_str(" . ");
                        s.push_str(&render_qq(other, d));
                        break;
                    }
                }
            }
            s.push(')');
            s
        }
    }
}

pub fn render_helper(h: &Helper, d: Dialect) -> String {
    match h {
        Helper::Fun(f) => format!(
            "({} {} {} {})",
            if f.inline { "defun-inline" } else { "defun" },
            f.name,
            f.params.render(),
            render_expr(&f.body, d)
        ),
        Helper::ConstSimple(n, l, _) => format!("(defconstant {} {})", n, render_lit(l)),
        Helper::ConstData(n, v) => format!("(defconstant {} {})", n, render_data(v)),
        Helper::ConstComplex(n, e, _) => format!("(defconst {} {})", n, render_expr(e, d)),
        Helper::Mac(m) => format!("(defmacro {} ({}) {})", m.name, m.params.join(" "), render_template(&m.template, &m.params, d)),
    }
}

/// A macro template is rendered as a quasi-quotation in which the parameters are unquoted.
fn render_template(e: &Expr, params: &[String], d: Dialect) -> String {
    format!("(qq {})", render_tpl(e, params, d))
}

fn render_tpl(e: &Expr, params: &[String], d: Dialect) -> String {
    match e {
        Expr::Var(n) if params.contains(n) => format!("(unquote {n})"),
        Expr::Lit(l) => render_lit(l),
        Expr::Var(n) => n.clone(),
        Expr::Prim(op, args) => {
            let mut s = format!("({op}");
            for a in args {
                s.push(' ');
                s.push_str(&render_tpl(a, params, d));
            }
            s.push(')');
            s
        }
        Expr::If(a, b, c) => format!("(if {} {} {})", render_tpl(a, params, d), render_tpl(b, params, d), render_tpl(c, params, d)),
        Expr::Call(n, args, None) => {
            let mut s = format!("({n}");
            for a in args {
                s.push(' ');
                s.push_str(&render_tpl(a, params, d));
            }
            s.push(')');
            s
        }
        other => render_expr(other, d),
    }
}

pub fn render_program(p: &Program, d: Dialect, nested: bool) -> String {
    let mut s = format!("(mod {}", p.params.render());
    if let Some(sig) = d.sigil() {
        if !nested {
            s.push_str(&format!("\n  (include {sig})"));
        }
    }
    for h in p.helpers.iter() {
        s.push_str("\n  ");
        s.push_str(&render_helper(h, d));
    }
    s.push_str("\n  ");
    s.push_str(&render_expr(&p.body, d));
    s.push_str("\n)");
    s
}

// ------------------------------------------------------------------------------------------------
// generator

#[derive(Clone)]
pub struct GenCfg {
    pub max_helpers: usize,
    pub max_depth: usize,
    pub max_params: usize,
    pub allow_macros: bool,
    pub allow_lambda: bool,
    pub allow_let: bool,
    pub allow_rest: bool,
    pub allow_at: bool,
    pub allow_nested_mod: bool,
    pub allow_zero_led: bool,
    pub allow_raise: bool,
    pub heavy_ops: bool, // sha256/pubkey etc
    /// steer around the feature combinations of the listed known findings (see known_findings.json)
    pub avoid_known: bool,
    /// classic reads atoms untyped: an integer literal whose bytes spell an operator keyword or a
    /// name is that keyword/name there, so such integers are not generated for the classic dialect
    pub classic_ints: bool,
    /// conditionals (if, all/any, recursive templates) may be generated
    pub allow_if: bool,
}

impl GenCfg {
    pub fn modern() -> GenCfg {
        GenCfg { max_helpers: 5, max_depth: 4, max_params: 6, allow_macros: true, allow_lambda: true, allow_let: true, allow_rest: true, allow_at: true, allow_nested_mod: true, allow_zero_led: true, allow_raise: true, heavy_ops: true, avoid_known: true, classic_ints: false, allow_if: true }
    }
    pub fn classic() -> GenCfg {
        GenCfg { max_helpers: 5, max_depth: 4, max_params: 6, allow_macros: true, allow_lambda: false, allow_let: false, allow_rest: false, allow_at: false, allow_nested_mod: false, allow_zero_led: true, allow_raise: true, heavy_ops: true, avoid_known: true, classic_ints: false, allow_if: true }
    }
}

#[derive(Clone)]
struct FunSig {
    name: String,
    params: Pat,
    ret: Ty,
    inline: bool,
    lambda_free: bool,
}

#[derive(Clone)]
struct MacSig {
    name: String,
    n: usize,
}

pub struct Gen<'a> {
    pub rng: &'a mut Rng,
    pub cfg: GenCfg,
    funs: Vec<FunSig>,
    consts: Vec<(String, Ty)>,
    macs: Vec<MacSig>,
    ctr: usize,
    in_macro_arg: bool,
    /// inside a defconst body: only functions that are (transitively) free of lambdas may be
    /// called (known finding: a defconst that reaches a lambda overflows the compiler's stack)
    in_const: bool,
    in_nested_mod: bool,
    /// generating the body of a helper function / an argument of a user function call
    in_fun_body: bool,
    in_call_arg: u32,
    /// binding forms / lambdas generated so far in this program (their nesting multiplies the size
    /// of the modern compiler's output, so the total is capped)
    n_lets: u32,
    n_lambdas: u32,
    in_inline_body: bool,
    suppress_tail: bool,
}

type Scope = Vec<(String, Ty)>;

impl<'a> Gen<'a> {
    pub fn new(rng: &'a mut Rng, cfg: GenCfg) -> Gen<'a> {
        Gen { rng, cfg, funs: vec![], consts: vec![], macs: vec![], ctr: 0, in_macro_arg: false, in_const: false, in_nested_mod: false, in_fun_body: false, in_call_arg: 0, n_lets: 0, n_lambdas: 0, in_inline_body: false, suppress_tail: false }
    }

    fn fresh(&mut self, prefix: &str) -> String {
        self.ctr += 1;
        format!("{}{}", prefix, self.ctr)
    }

    fn pick_ty(&mut self) -> Ty {
        match self.rng.below(10) {
            0..=4 => Ty::Int,
            5..=6 => Ty::Bytes,
            7..=8 => Ty::List,
            _ => Ty::Any,
        }
    }

    pub fn gen_params(&mut self, n: usize, prefix: &str, allow_clo: bool) -> Pat {
        self.gen_params_ex(n, prefix, allow_clo, true)
    }

    pub fn gen_params_ex(&mut self, n: usize, prefix: &str, allow_clo: bool, allow_nested: bool) -> Pat {
        let mut items: Vec<Pat> = vec![];
        let mut i = 0;
        while i < n {
            let t = if allow_clo && self.cfg.allow_lambda && self.rng.chance(1, 12) { Ty::Clo } else { self.pick_ty() };
            let name = format!("{}{}", prefix, i);
            // nested group of 2-3 params
            if allow_nested && n - i >= 2 && self.rng.chance(1, 6) {
                let k = 2 + self.rng.below(2.min(n - i - 1));
                let mut group: Vec<(String, Ty)> = vec![];
                for j in 0..k {
                    let tj = self.pick_ty();
                    group.push((format!("{}{}", prefix, i + j), tj));
                }
                let tail = if self.rng.chance(1, 4) && k >= 2 { group.pop() } else { None };
                let g = Pat::flat(&group, tail);
                let g = if self.cfg.allow_at && self.rng.chance(1, 3) { Pat::At(format!("{}g{}", prefix, i), Box::new(g)) } else { g };
                items.push(g);
                i += k;
                continue;
            }
            items.push(Pat::Var(name, t));
            i += 1;
        }
        // dotted tail?
        let mut tail = Pat::Nil;
        if items.len() >= 2 && self.rng.chance(1, 5) && !self.suppress_tail {
            if let Some(Pat::Var(n, _)) = items.last().cloned() {
                items.pop();
                tail = Pat::Var(n, if self.rng.chance(1, 2) { Ty::List } else { Ty::Any });
            }
        }
        let mut p = tail;
        for it in items.into_iter().rev() {
            p = Pat::Pair(Box::new(it), Box::new(p));
        }
        p
    }

    fn lit_int(&mut self) -> Expr {
        let v = match self.rng.below(10) {
            0 => 0,
            1 => self.rng.range(-5, 5),
            2 => self.rng.range(-300, 300),
            3 => *self.rng.pick(&[127i64, 128, 255, 256, -128, -129, 32767, 32768, 65535, 65536, -32768, -32769]),
            4 => self.rng.range(-1_000_000_000_000, 1_000_000_000_000),
            _ => self.rng.range(1, 100),
        };
        if self.rng.chance(1, 25) && !self.in_macro_arg {
            let big = format!("{}{:018}", if self.rng.chance(1, 3) { "-" } else { "" }, self.rng.next() % 1_000_000_000_000_000_000).replace("-0", "-1");
            let big = format!("{}{}", big, self.rng.next() % 1000 + 1000);
            return Expr::Lit(Lit::BigInt(big.trim_start_matches('0').to_string()));
        }
        // 64 is the byte '@': the non-strict dialects read atoms untyped, so a bare 64 *is* the
        // environment reference there (language design, not a defect) — never generated.
        let v = if v == 64 { 65 } else { v };
        let v = if self.cfg.classic_ints && ((33..=126).contains(&v) || [15987, 26982, 29041].contains(&v)) { v + 200 } else { v };
        Expr::Lit(Lit::Int(v))
    }

    fn lit_bytes(&mut self) -> Expr {
        match self.rng.below(8) {
            0..=3 => {
                let n = 1 + self.rng.below(8);
                let b: Vec<u8> = (0..n).map(|_| b"abcdefghijklmnopqrstuvwxyzABCXYZ0123456789 _-+:/.,!?"[self.rng.below(52)]).collect();
                // never a string that starts like a number (some paths would re-read it)
                let mut b = b;
                // first character from a set no generated identifier starts with, and never a digit,
                // sign or blank (some paths re-read atoms): a string can then never alias a name
                b[0] = b"bcdeghjnoqrstuwxyz"[self.rng.below(18)];
                // classic reads a quoted string that spells a keyword (q, c, r, x, qq, not, …) as that keyword (atoms are
                // untyped there: language design): a word-like string gets a character no keyword contains
                if b.iter().all(|c| c.is_ascii_alphanumeric() || *c == b'_') {
                    b.push(b'!');
                }
                Expr::Lit(Lit::Str(b, if self.rng.chance(1, 3) { b'\'' } else { b'"' }))
            }
            4 => Expr::Lit(Lit::Hex(self.rng.bytes(32))),
            5 => {
                let n = 1 + self.rng.below(6);
                let mut b = self.rng.bytes(n);
                if !self.cfg.allow_zero_led || !self.rng.chance(1, 3) {
                    // canonical: avoid redundant leading bytes
                    while b.len() > 1 && ((b[0] == 0 && b[1] & 0x80 == 0) || (b[0] == 0xff && b[1] & 0x80 != 0)) {
                        b.remove(0);
                    }
                    if b == [0] {
                        b = vec![1];
                    }
                }
                // the untyped dialects read a hex literal made only of printable ASCII as the
                // identifier it spells (0x40 is '@'): never generated
                if b.iter().all(|c| (33..=126).contains(c)) {
                    b.insert(0, 0x01);
                }
                Expr::Lit(Lit::Hex(b))
            }
            6 if self.cfg.allow_zero_led && self.rng.chance(1, 3) => Expr::Lit(Lit::Hex(self.rng.pick(&[vec![0u8], vec![0, 0], vec![0, 1], vec![0, 0x7f], vec![0xff, 0xff], vec![0xff, 0x80]]).clone())),
            _ => Expr::Lit(Lit::Hex(vec![0x00, 0x80 + self.rng.below(0x7f) as u8])),
        }
    }

    fn vars_of(&self, scope: &Scope, t: Ty) -> Vec<String> {
        // innermost binding of each name wins
        let mut seen = BTreeSet::new();
        let mut out = vec![];
        for (n, vt) in scope.iter().rev() {
            if seen.insert(n.clone()) && (*vt == t) {
                out.push(n.clone());
            }
        }
        for (n, ct) in self.consts.iter() {
            if *ct == t && !seen.contains(n) {
                out.push(n.clone());
            }
        }
        out
    }

    fn any_var(&self, scope: &Scope) -> Option<(String, Ty)> {
        if scope.is_empty() {
            None
        } else {
            None
        }
    }

    pub fn gen_expr(&mut self, t: Ty, depth: usize, scope: &Scope) -> Expr {
        let vars = self.vars_of(scope, t);
        if depth == 0 || self.rng.chance(1, 7) {
            if !vars.is_empty() && self.rng.chance(3, 4) {
                return Expr::Var(self.rng.pick(&vars).clone());
            }
            return self.leaf(t, scope);
        }
        // structural choices common to all types
        let roll = self.rng.below(100);
        if roll < 12 && self.cfg.allow_if {
            let c = self.gen_cond(depth - 1, scope);
            let a = self.gen_expr(t, depth - 1, scope);
            let b = self.gen_expr(t, depth - 1, scope);
            return Expr::If(Box::new(c), Box::new(a), Box::new(b));
        }
        if roll < 26 && !self.in_macro_arg {
            if let Some(e) = self.gen_call(t, depth, scope) {
                return e;
            }
        }
        if roll < 38 && self.cfg.allow_let && !self.in_macro_arg && t != Ty::Clo && self.n_lets < 7 {
            if self.rng.chance(1, 4) {
                return self.gen_shadow_let(t, depth, scope);
            }
            self.n_lets += 1;
            return self.gen_let(t, depth, scope);
        }
        if roll < 42 && t == Ty::Int && !self.macs.is_empty() && !self.in_macro_arg {
            let m = self.rng.pick(&self.macs).clone();
            let was = self.in_macro_arg;
            self.in_macro_arg = true;
            let args: Vec<Expr> = (0..m.n).map(|_| self.gen_expr(Ty::Int, depth.saturating_sub(2), scope)).collect();
            self.in_macro_arg = was;
            return Expr::MacroCall(m.name, args);
        }
        if roll < 47 && t == Ty::Int && self.cfg.allow_lambda && !self.in_macro_arg && self.n_lambdas < 3 {
            // immediately applied lambda with captures
            let lam = self.gen_lambda(depth - 1, scope);
            let arg = self.gen_expr(Ty::Int, depth - 1, scope);
            return Expr::Apply(Box::new(lam), Box::new(Expr::List(vec![arg])));
        }
        if roll < 50 && t == Ty::Int && self.cfg.allow_lambda && !self.in_macro_arg {
            let clos = self.vars_of(scope, Ty::Clo);
            if !clos.is_empty() {
                let f = self.rng.pick(&clos).clone();
                let arg = self.gen_expr(Ty::Int, depth - 1, scope);
                return Expr::Apply(Box::new(Expr::Var(f)), Box::new(Expr::List(vec![arg])));
            }
        }
        if roll < 53 && t == Ty::Int && self.cfg.allow_nested_mod && !self.in_macro_arg && depth >= 2 && !(self.in_fun_body && self.cfg.avoid_known) {
            let inner = self.gen_nested_mod();
            let arg = self.gen_expr(Ty::Int, depth - 1, scope);
            return Expr::Apply(Box::new(Expr::ModVal(Rc::new(inner))), Box::new(Expr::List(vec![arg])));
        }
        match t {
            Ty::Int => self.gen_int(depth, scope),
            Ty::Bytes => self.gen_bytes(depth, scope),
            Ty::List => self.gen_list(depth, scope),
            Ty::Any => {
                let tt = *self.rng.pick(&[Ty::Int, Ty::Bytes, Ty::List, Ty::List]);
                if self.rng.chance(1, 4) {
                    let a = self.gen_expr(Ty::Any, depth - 1, scope);
                    let b = self.gen_expr(Ty::Any, depth - 1, scope);
                    Expr::Prim("c", vec![a, b])
                } else {
                    self.gen_expr(tt, depth, scope)
                }
            }
            Ty::Clo => self.gen_lambda(depth - 1, scope),
        }
    }

    fn leaf(&mut self, t: Ty, scope: &Scope) -> Expr {
        match t {
            Ty::Int => self.lit_int(),
            Ty::Bytes => {
                if self.in_macro_arg {
                    self.lit_int()
                } else {
                    self.lit_bytes()
                }
            }
            Ty::List => {
                if self.in_macro_arg {
                    return Expr::Lit(Lit::Nil);
                }
                let n = self.rng.below(5);
                let items: Vec<V> = (0..n).map(|_| V::int({ let x = self.rng.range(-50, 500); if x == 64 { 65 } else { x } })).collect();
                // known finding: a quoted constant inside an argument of a user function call in a
                // function body overflows the cl23+ compiler's stack
                let no_quote = false; // (the cl23 constant-call recursion was repaired in /repo)
                if self.rng.chance(1, 2) && !no_quote {
                    Expr::Quote(V::list(&items))
                } else {
                    Expr::List(items.iter().map(|v| Expr::Lit(Lit::Int(bytes_to_int(match v { V::A(b) => b, _ => unreachable!() }) as i64))).collect())
                }
            }
            Ty::Any => {
                let tt = *self.rng.pick(&[Ty::Int, Ty::Bytes, Ty::List]);
                self.leaf(tt, scope)
            }
            Ty::Clo => self.gen_lambda(1, scope),
        }
    }

    fn gen_cond(&mut self, depth: usize, scope: &Scope) -> Expr {
        match self.rng.below(9) {
            0 => {
                let a = self.gen_expr(Ty::Int, depth, scope);
                let b = self.gen_expr(Ty::Int, depth, scope);
                Expr::Prim("=", vec![a, b])
            }
            1 | 2 => {
                let a = self.gen_expr(Ty::Int, depth, scope);
                let b = self.gen_expr(Ty::Int, depth, scope);
                Expr::Prim(">", vec![a, b])
            }
            3 => {
                let a = self.gen_expr(Ty::Bytes, depth, scope);
                let b = self.gen_expr(Ty::Bytes, depth, scope);
                Expr::Prim(">s", vec![a, b])
            }
            4 => {
                let a = self.gen_expr(Ty::Any, depth, scope);
                Expr::Prim("l", vec![a])
            }
            5 => {
                let a = self.gen_cond(depth.saturating_sub(1), scope);
                Expr::Prim("not", vec![a])
            }
            6 => {
                let a = self.gen_cond(depth.saturating_sub(1), scope);
                let b = self.gen_cond(depth.saturating_sub(1), scope);
                Expr::Prim(if self.rng.chance(1, 2) { "any" } else { "all" }, vec![a, b])
            }
            7 => self.gen_expr(Ty::List, depth, scope),
            _ => self.gen_expr(Ty::Int, depth, scope),
        }
    }

    fn gen_int(&mut self, depth: usize, scope: &Scope) -> Expr {
        let d = depth - 1;
        match self.rng.below(16) {
            0..=3 => {
                let n = 2 + self.rng.below(2);
                let args: Vec<Expr> = (0..n).map(|_| self.gen_expr(Ty::Int, d, scope)).collect();
                Expr::Prim(*self.rng.pick(&["+", "-", "+", "*"]), args)
            }
            4 => {
                let a = self.gen_expr(Ty::Bytes, d, scope);
                Expr::Prim("strlen", vec![a])
            }
            5 => {
                let a = self.gen_expr(Ty::Int, d, scope);
                let b = self.gen_expr(Ty::Int, d, scope);
                Expr::Prim(*self.rng.pick(&["logand", "logior", "logxor"]), vec![a, b])
            }
            6 => {
                let a = self.gen_expr(Ty::Int, d, scope);
                Expr::Prim("lognot", vec![a])
            }
            7 => {
                let a = self.gen_expr(Ty::Int, d, scope);
                let s = Expr::Lit(Lit::Int(self.rng.range(-6, 10)));
                Expr::Prim(*self.rng.pick(&["ash", "lsh"]), vec![a, s])
            }
            8 => {
                let a = self.gen_expr(Ty::Int, d, scope);
                let b = Expr::Lit(Lit::Int(*self.rng.pick(&[1i64, 2, 3, 7, 10, 255, -3])));
                let dm = Expr::Prim("divmod", vec![a, b]);
                Expr::Prim(if self.rng.chance(1, 2) { "f" } else { "r" }, vec![dm])
            }
            9 => {
                let a = self.gen_expr(Ty::Int, d, scope);
                let b = Expr::Lit(Lit::Int(*self.rng.pick(&[1i64, 2, 3, 7, 10, 255])));
                // known finding: "/" inside a nested mod re-declares the prelude's inline "/"
                // known finding: "/" is an inline of the prelude; any second compilation inside the
                // same module (defconst evaluation, nested mod) fails with "Cannot redefine /"
                let op = if self.cfg.avoid_known { "%" } else { *self.rng.pick(&["/", "%"]) };
                Expr::Prim(op, vec![a, b])
            }
            10 => {
                // first element of a list we build ourselves
                let a = self.gen_expr(Ty::Int, d, scope);
                let l = self.gen_expr(Ty::List, d, scope);
                Expr::Prim("f", vec![Expr::Prim("c", vec![a, l])])
            }
            11 => {
                // booleans are ints too (1 or nil): only the comparison forms, which yield atoms
                let a = self.gen_expr(Ty::Int, d, scope);
                let b = self.gen_expr(Ty::Int, d, scope);
                Expr::Prim(*self.rng.pick(&["=", ">"]), vec![a, b])
            }
            12 if self.cfg.heavy_ops => {
                let a = self.gen_expr(Ty::Int, d, scope);
                let b = Expr::Lit(Lit::Int(self.rng.range(0, 5)));
                let m = Expr::Lit(Lit::Int(*self.rng.pick(&[7i64, 97, 1000003])));
                Expr::Prim("modpow", vec![a, b, m])
            }
            _ => {
                let a = self.gen_expr(Ty::Int, d, scope);
                let b = self.gen_expr(Ty::Int, d, scope);
                Expr::Prim(*self.rng.pick(&["+", "-"]), vec![a, b])
            }
        }
    }

    fn gen_bytes(&mut self, depth: usize, scope: &Scope) -> Expr {
        let d = depth - 1;
        match self.rng.below(8) {
            0 | 1 => {
                let n = 1 + self.rng.below(3);
                let args: Vec<Expr> = (0..n).map(|_| self.gen_expr(Ty::Bytes, d, scope)).collect();
                Expr::Prim("sha256", args)
            }
            2 | 3 => {
                let a = self.gen_expr(Ty::Bytes, d, scope);
                let b = self.gen_expr(Ty::Bytes, d, scope);
                Expr::Prim("concat", vec![a, b])
            }
            4 => {
                let s: Vec<u8> = (0..8 + self.rng.below(8)).map(|_| b"abcdefghijklmnop"[self.rng.below(16)]).collect();
                let i = self.rng.below(4) as i64;
                let j = i + self.rng.below(4) as i64;
                Expr::Prim("substr", vec![Expr::Lit(Lit::Str(s, b'"')), Expr::Lit(Lit::Int(i)), Expr::Lit(Lit::Int(j))])
            }
            5 if self.cfg.heavy_ops => {
                let a = self.gen_expr(Ty::Bytes, d, scope);
                Expr::Prim("keccak256", vec![a])
            }
            6 => {
                // an int is a byte string too
                self.gen_expr(Ty::Int, d, scope)
            }
            _ => self.lit_bytes(),
        }
    }

    fn gen_list(&mut self, depth: usize, scope: &Scope) -> Expr {
        let d = depth - 1;
        match self.rng.below(7) {
            0 | 1 => {
                let n = self.rng.below(4);
                let items: Vec<Expr> = (0..n).map(|_| self.gen_expr(Ty::Int, d, scope)).collect();
                Expr::List(items)
            }
            2 | 3 => {
                let a = self.gen_expr(Ty::Int, d, scope);
                let l = self.gen_expr(Ty::List, d, scope);
                Expr::Prim("c", vec![a, l])
            }
            // (known finding, classic: an inline function is itself a qq macro, a qq in its body breaks it)
            4 if !self.in_macro_arg && !(self.cfg.classic_ints && self.in_inline_body && self.cfg.avoid_known) => {
                // quasi-quotation with holes
                let n = 1 + self.rng.below(3);
                let mut q = QQ::Data(V::nil());
                for _ in 0..n {
                    let item = if self.rng.chance(1, 2) { QQ::Unquote(self.gen_expr(Ty::Int, d, scope)) } else { QQ::Data(V::int({ let x = self.rng.range(0, 300); if x == 64 || x == 113 || x == 1 { 65 } else { x } })) };
                    q = QQ::Cons(Box::new(item), Box::new(q));
                }
                Expr::QQ(Box::new(q))
            }
            5 => {
                // rest of a list we build ourselves
                let a = self.gen_expr(Ty::Int, d, scope);
                let l = self.gen_expr(Ty::List, d, scope);
                Expr::Prim("r", vec![Expr::Prim("c", vec![a, l])])
            }
            _ => self.leaf(Ty::List, scope),
        }
    }

    fn gen_lambda(&mut self, depth: usize, scope: &Scope) -> Expr {
        self.n_lambdas += 1;
        // captures: up to 2 Int/Bytes variables from scope
        let mut caps: Vec<(String, Ty)> = vec![];
        let mut seen = BTreeSet::new();
        let mut cands: Vec<(String, Ty)> = vec![];
        for (n, t) in scope.iter().rev() {
            if seen.insert(n.clone()) && (*t == Ty::Int || *t == Ty::List) {
                cands.push((n.clone(), *t));
            }
        }
        let k = self.rng.below(3).min(cands.len());
        self.rng.shuffle(&mut cands);
        for c in cands.into_iter().take(k) {
            caps.push(c);
        }
        let p = self.fresh("lp");
        let mut inner: Scope = caps.clone();
        inner.push((p.clone(), Ty::Int));
        let was_let = self.cfg.allow_let;
        let body = self.gen_expr(Ty::Int, depth.min(2), &inner);
        self.cfg.allow_let = was_let;
        Expr::Lambda(caps.into_iter().map(|c| c.0).collect(), Pat::flat(&[(p, Ty::Int)], None), Box::new(body))
    }

    fn gen_nested_mod(&mut self) -> Program {
        let p = self.fresh("MP");
        let scope: Scope = vec![(p.clone(), Ty::Int)];
        // nested module: own namespace, no helpers of the outer module are visible
        let saved = (std::mem::take(&mut self.funs), std::mem::take(&mut self.consts), std::mem::take(&mut self.macs));
        // A nested (mod …) without a sigil of its own is compiled as a plain module: the modern
        // binding forms (let/assign/lambda) are not available inside it, so only the core subset
        // is generated there.
        let was = (self.cfg.allow_nested_mod, self.cfg.allow_lambda, self.cfg.allow_let, self.cfg.allow_rest);
        self.cfg.allow_nested_mod = false;
        self.cfg.allow_lambda = false;
        self.cfg.allow_let = false;
        self.cfg.allow_rest = false;
        self.in_nested_mod = true;
        let body = self.gen_expr(Ty::Int, 2, &scope);
        self.in_nested_mod = false;
        self.cfg.allow_nested_mod = was.0;
        self.cfg.allow_lambda = was.1;
        self.cfg.allow_let = was.2;
        self.cfg.allow_rest = was.3;
        self.funs = saved.0;
        self.consts = saved.1;
        self.macs = saved.2;
        Program { params: Pat::flat(&[(p, Ty::Int)], None), helpers: vec![], body, ret: Ty::Int }
    }

    fn gen_call(&mut self, t: Ty, depth: usize, scope: &Scope) -> Option<Expr> {
        let in_const = self.in_const;
        let cands: Vec<FunSig> = self.funs.iter().filter(|f| (f.ret == t || (t == Ty::Any)) && (!in_const || (f.lambda_free && !has_clo_param(&f.params)))).cloned().collect();
        if cands.is_empty() {
            return None;
        }
        let f = self.rng.pick(&cands).clone();
        let (items, tail) = f.params.top_items();
        let d = depth - 1;
        let mut args: Vec<Expr> = vec![];
        self.in_call_arg += 1;
        // a share of the calls have only constant arguments (and a constant tail): that is what
        // the constant-folding optimisers of cl23+ act on
        let all_const = self.rng.chance(1, 5) && !has_clo_param(&f.params);
        let empty: Scope = vec![];
        let (ascope, adepth): (&Scope, usize) = if all_const { (&empty, 0) } else { (scope, d) };
        for it in items.iter() {
            args.push(self.gen_arg_expr(it, adepth, ascope));
        }
        let mut rest: Option<Box<Expr>> = None;
        let rest_ok = self.cfg.allow_rest && !(f.inline && self.cfg.avoid_known);
        if let Some(tp) = tail {
            // callee has a dotted tail parameter
            let tail_ty = match tp {
                Pat::Var(_, ty) => *ty,
                _ => Ty::Any,
            };
            let tt = if tail_ty == Ty::Any { Ty::List } else { tail_ty };
            if rest_ok && self.rng.chance(1, 2) {
                let e = if all_const {
                    self.leaf(tt, &empty)
                } else if self.cfg.allow_let && self.rng.chance(1, 3) {
                    // the tail is a binding form that shadows a visible name
                    self.gen_shadow_let(tt, d, scope)
                } else {
                    self.gen_expr(tt, d, scope)
                };
                rest = Some(Box::new(e));
            } else {
                // extra positional arguments are collected by the tail
                let k = self.rng.below(3);
                for _ in 0..k {
                    args.push(self.gen_expr(Ty::Int, adepth, ascope));
                }
            }
        } else if rest_ok && !items.is_empty() && self.rng.chance(1, if all_const { 3 } else { 8 }) {
            // too few positional arguments, the rest supplied through a literal-length tail
            let keep = self.rng.below(items.len());
            let dropped: Vec<Expr> = args.drain(keep..).collect();
            rest = Some(Box::new(if all_const && self.rng.chance(3, 4) { quote_if_const(dropped) } else { list_expr_of(dropped) }));
        } else if self.rng.chance(1, 12) {
            // surplus positional arguments are ignored
            args.push(self.gen_expr(Ty::Int, adepth, ascope));
        }
        self.in_call_arg -= 1;
        Some(Expr::Call(f.name, args, rest))
    }

    /// A let / let* whose binding re-uses (shadows) a name that is visible here.
    fn gen_shadow_let(&mut self, t: Ty, depth: usize, scope: &Scope) -> Expr {
        let cands: Vec<(String, Ty)> = scope.iter().filter(|(_, ty)| *ty != Ty::Clo).cloned().collect();
        if cands.is_empty() || self.n_lets >= 7 {
            return self.gen_expr(t, depth, scope);
        }
        self.n_lets += 1;
        let (name, ty) = self.rng.pick(&cands).clone();
        let d = depth.saturating_sub(1);
        // the new value is computed from the old one, so using the wrong one is visible
        let old = Expr::Var(name.clone());
        let newv = match ty {
            Ty::Int => Expr::Prim("+", vec![old, self.lit_int()]),
            Ty::List => {
                let k = self.lit_int();
                Expr::Prim("c", vec![k, old])
            }
            Ty::Bytes => Expr::Prim("concat", vec![old, self.lit_bytes()]),
            _ => Expr::Prim("c", vec![old, Expr::Lit(Lit::Nil)]),
        };
        let nty = if ty == Ty::Any { Ty::Any } else { ty };
        let mut inner = scope.clone();
        inner.push((name.clone(), nty));
        // a body that uses the shadowed name
        let body = if nty == t || t == Ty::Any {
            Expr::Var(name.clone())
        } else {
            self.gen_expr(t, d, &inner)
        };
        let kind = if self.rng.chance(1, 2) { LetKind::Let } else { LetKind::LetStar };
        Expr::Let(kind, vec![(Pat::Var(name, nty), newv)], Box::new(body))
    }

    fn gen_arg_expr(&mut self, p: &Pat, depth: usize, scope: &Scope) -> Expr {
        match p {
            Pat::Var(_, t) => self.gen_expr(*t, depth, scope),
            Pat::Nil => Expr::Lit(Lit::Nil),
            Pat::At(_, q) => self.gen_arg_expr(q, depth, scope),
            Pat::Pair(_, _) => {
                // build a structure fitting the nested pattern
                let (items, tail) = p.top_items();
                let mut es: Vec<Expr> = items.iter().map(|it| self.gen_arg_expr(it, depth.saturating_sub(1), scope)).collect();
                match tail {
                    None => Expr::List(es),
                    Some(tp) => {
                        let mut acc = self.gen_arg_expr(tp, depth.saturating_sub(1), scope);
                        while let Some(e) = es.pop() {
                            acc = Expr::Prim("c", vec![e, acc]);
                        }
                        acc
                    }
                }
            }
        }
    }

    fn gen_let(&mut self, t: Ty, depth: usize, scope: &Scope) -> Expr {
        let d = depth - 1;
        let kind = *self.rng.pick(&[LetKind::Let, LetKind::Let, LetKind::LetStar, LetKind::Assign, LetKind::Assign, LetKind::AssignInline, LetKind::AssignLambda]);
        let n = 1 + self.rng.below(3);
        let mut bindings: Vec<(Pat, Expr)> = vec![];
        let mut inner = scope.clone();
        let mut new_names: Vec<(String, Ty)> = vec![];
        for _ in 0..n {
            let bt = if self.cfg.allow_lambda && self.n_lambdas < 3 && self.rng.chance(1, 10) && kind != LetKind::AssignInline { Ty::Clo } else { self.pick_ty() };
            // sometimes deliberately shadow a visible name (not for assign: duplicates are rejected there)
            let name = if matches!(kind, LetKind::Let | LetKind::LetStar) && !scope.is_empty() && self.rng.chance(1, 6) {
                let cands: Vec<&(String, Ty)> = scope.iter().filter(|(n, _)| !new_names.iter().any(|(m, _)| m == n)).collect();
                if cands.is_empty() { self.fresh("v") } else { self.rng.pick(&cands).0.clone() }
            } else {
                self.fresh("v")
            };
            let see: Scope = match kind {
                LetKind::Let => scope.clone(),
                _ => inner.clone(),
            };
            // destructuring binding (assign family only)
            if !matches!(kind, LetKind::Let | LetKind::LetStar) && self.rng.chance(1, 12) {
                // a proper-list pattern of 3..4 names bound to a list of as many values (deeper paths than a pair)
                let k = 3 + self.rng.below(2);
                let mut names = vec![(name.clone(), self.pick_ty())];
                for _ in 1..k {
                    names.push((self.fresh("v"), self.pick_ty()));
                }
                let vals: Vec<Expr> = names.iter().map(|(_, t)| self.gen_expr(*t, d, &see)).collect();
                bindings.push((Pat::flat(&names, None), Expr::List(vals)));
                for (n, t) in names.into_iter() {
                    inner.push((n.clone(), t));
                    new_names.push((n, t));
                }
                continue;
            }
            if !matches!(kind, LetKind::Let | LetKind::LetStar) && self.rng.chance(1, 4) {
                let n2 = self.fresh("v");
                let (ta, tb) = (self.pick_ty(), self.pick_ty());
                let ea = self.gen_expr(ta, d, &see);
                let eb = self.gen_expr(tb, d, &see);
                let pat = Pat::Pair(Box::new(Pat::Var(name.clone(), ta)), Box::new(Pat::Var(n2.clone(), tb)));
                bindings.push((pat, Expr::Prim("c", vec![ea, eb])));
                inner.push((name.clone(), ta));
                inner.push((n2.clone(), tb));
                new_names.push((name, ta));
                new_names.push((n2, tb));
                continue;
            }
            let e = self.gen_expr(bt, d, &see);
            bindings.push((Pat::Var(name.clone(), bt), e));
            inner.push((name.clone(), bt));
            new_names.push((name, bt));
        }
        if matches!(kind, LetKind::Assign | LetKind::AssignInline | LetKind::AssignLambda) && bindings.len() > 1 && self.rng.chance(1, 2) {
            // assign bindings may be written in any order
            self.rng.shuffle(&mut bindings);
        }
        let body = self.gen_expr(t, d, &inner);
        Expr::Let(kind, bindings, Box::new(body))
    }

    fn gen_fun(&mut self, idx: usize) -> Fun {
        let inline = self.rng.chance(2, 5);
        let ret = *self.rng.pick(&[Ty::Int, Ty::Int, Ty::Int, Ty::Bytes, Ty::List]);
        let name = format!("{}_{}", if inline { "inl" } else { "fun" }, idx);
        // a family of structurally recursive templates (non-inline only)
        if !inline && self.cfg.allow_if && self.rng.chance(1, 4) {
            let l = format!("L{idx}");
            let acc = format!("ACC{idx}");
            match self.rng.below(3) {
                0 => {
                    // sum with accumulator
                    let body = Expr::If(
                        Box::new(Expr::Prim("l", vec![Expr::Var(l.clone())])),
                        Box::new(Expr::Call(name.clone(), vec![Expr::Prim("r", vec![Expr::Var(l.clone())]), Expr::Prim("+", vec![Expr::Var(acc.clone()), Expr::Prim("f", vec![Expr::Var(l.clone())])])], None)),
                        Box::new(Expr::Var(acc.clone())),
                    );
                    return Fun { name, inline: false, params: Pat::flat(&[(l, Ty::List), (acc, Ty::Int)], None), body, ret: Ty::Int, recursive: true };
                }
                1 => {
                    // map: add a constant to every element
                    let k = self.lit_int();
                    let body = Expr::If(
                        Box::new(Expr::Prim("l", vec![Expr::Var(l.clone())])),
                        Box::new(Expr::Prim("c", vec![Expr::Prim("+", vec![Expr::Prim("f", vec![Expr::Var(l.clone())]), k]), Expr::Call(name.clone(), vec![Expr::Prim("r", vec![Expr::Var(l.clone())])], None)])),
                        Box::new(Expr::Lit(Lit::Nil)),
                    );
                    return Fun { name, inline: false, params: Pat::flat(&[(l, Ty::List)], None), body, ret: Ty::List, recursive: true };
                }
                _ if self.cfg.allow_lambda => {
                    // higher order map
                    let fv = format!("FN{idx}");
                    let body = Expr::If(
                        Box::new(Expr::Prim("l", vec![Expr::Var(l.clone())])),
                        Box::new(Expr::Prim("c", vec![
                            Expr::Apply(Box::new(Expr::Var(fv.clone())), Box::new(Expr::List(vec![Expr::Prim("f", vec![Expr::Var(l.clone())])]))),
                            Expr::Call(name.clone(), vec![Expr::Var(fv.clone()), Expr::Prim("r", vec![Expr::Var(l.clone())])], None),
                        ])),
                        Box::new(Expr::Lit(Lit::Nil)),
                    );
                    return Fun { name, inline: false, params: Pat::flat(&[(fv, Ty::Clo), (l, Ty::List)], None), body, ret: Ty::List, recursive: true };
                }
                _ => {}
            }
        }
        let np = 1 + self.rng.below(4);
        // known finding: destructuring (nested) parameters of inline functions are mis-resolved
        // ("Lookup for argument N that wasn't passed", wrong paths, unbounded recursion)
        let nested_ok = !(inline && self.cfg.avoid_known) || self.cfg.classic_ints; // (classic inline destructuring works)
        // known finding (classic): an inline function is a macro there; arguments collected by a
        // dotted tail parameter are spliced as a *form* and then compiled as a call
        self.suppress_tail = inline && self.cfg.classic_ints && self.cfg.avoid_known;
        let params = self.gen_params_ex(np, &format!("P{idx}_"), !inline, nested_ok);
        self.suppress_tail = false;
        let mut scope: Scope = vec![];
        params.vars(&mut scope);
        // known finding: (@ name pattern) parameters together with let/assign forms in the same body
        let has_at = params.render().contains("(@ ");
        let was_let = self.cfg.allow_let;
        let was_lambda = self.cfg.allow_lambda;
        if has_at && self.cfg.avoid_known {
            self.cfg.allow_let = false;
            self.cfg.allow_lambda = false;
        }
        // inline bodies are kept small: inline expansion multiplies code size at every use
        self.in_fun_body = true;
        self.in_inline_body = inline;
        if inline && self.rng.chance(1, 3) {
            // an inline whose body is a call of another helper / a constant: reachability through
            // nested inlines and macros
            let pre: Option<Expr> = if self.rng.chance(1, 2) {
                self.gen_call(ret, 2, &scope)
            } else {
                let cs = self.vars_of(&vec![], ret);
                if cs.is_empty() { None } else { Some(Expr::Var(self.rng.pick(&cs).clone())) }
            };
            if let Some(e) = pre {
                let use_param = scope.iter().find(|(_, t)| *t == Ty::Int).map(|(n, _)| n.clone());
                let body = match (ret, use_param) {
                    (Ty::Int, Some(pn)) => Expr::Prim("+", vec![e, Expr::Var(pn)]),
                    _ => e,
                };
                self.in_fun_body = false;
                self.in_inline_body = false;
                self.cfg.allow_let = was_let;
                self.cfg.allow_lambda = was_lambda;
                return Fun { name, inline, params, body, ret, recursive: false };
            }
        }
        let body = self.gen_expr(ret, if inline { 2 } else { self.cfg.max_depth.saturating_sub(1) }, &scope);
        self.in_fun_body = false;
        self.in_inline_body = false;
        self.cfg.allow_let = was_let;
        self.cfg.allow_lambda = was_lambda;
        Fun { name, inline, params, body, ret, recursive: false }
    }

    fn lambda_free(&self, e: &Expr) -> bool {
        match e {
            Expr::Lambda(_, _, _) | Expr::ModVal(_) => false,
            Expr::Lit(_) | Expr::Var(_) | Expr::Quote(_) => true,
            Expr::Prim(_, a) | Expr::List(a) | Expr::MacroCall(_, a) => a.iter().all(|x| self.lambda_free(x)),
            Expr::If(a, b, c) => self.lambda_free(a) && self.lambda_free(b) && self.lambda_free(c),
            Expr::Call(n, a, r) => {
                self.funs.iter().find(|f| &f.name == n).map(|f| f.lambda_free).unwrap_or(true)
                    && a.iter().all(|x| self.lambda_free(x))
                    && r.as_ref().map(|x| self.lambda_free(x)).unwrap_or(true)
            }
            // (defconst evaluation of functions containing let/assign forms is a listed finding too)
            Expr::Let(_, _, _) => false,
            Expr::Apply(a, b) => self.lambda_free(a) && self.lambda_free(b),
            Expr::QQ(q) => self.qq_lambda_free(q),
        }
    }

    fn qq_lambda_free(&self, q: &QQ) -> bool {
        match q {
            QQ::Data(_) => true,
            QQ::Unquote(e) => self.lambda_free(e),
            QQ::Cons(a, b) => self.qq_lambda_free(a) && self.qq_lambda_free(b),
        }
    }

    fn gen_macro(&mut self, idx: usize) -> Mac {
        let n = 1 + self.rng.below(2);
        let params: Vec<String> = (0..n).map(|i| format!("M{idx}_{i}")).collect();
        let hole = |i: usize| Expr::Var(params[i % n].clone());
        let k = Expr::Lit(Lit::Int(self.rng.range(1, 50)));
        let template = match self.rng.below(4) {
            0 => Expr::Prim("+", vec![hole(0), Expr::Prim("*", vec![k, hole(1)])]),
            1 => Expr::If(Box::new(Expr::Prim(">", vec![hole(0), k.clone()])), Box::new(hole(1)), Box::new(Expr::Prim("-", vec![hole(0), k]))),
            2 => Expr::Prim("-", vec![Expr::Prim("*", vec![hole(0), hole(0)]), hole(1)]),
            _ => Expr::Prim("+", vec![hole(1), k, hole(0)]),
        };
        Mac { name: format!("mac_{idx}"), params, template }
    }

    pub fn gen_program(&mut self) -> Program {
        self.funs.clear();
        self.consts.clear();
        self.macs.clear();
        self.n_lets = 0;
        self.n_lambdas = 0;
        let mut helpers: Vec<Helper> = vec![];
        let nh = self.rng.below(self.cfg.max_helpers + 1);
        for i in 0..nh {
            match self.rng.below(10) {
                0 => {
                    let (lit, ty) = if self.rng.chance(1, 2) {
                        (match self.lit_int() { Expr::Lit(l) => l, _ => Lit::Int(7) }, Ty::Int)
                    } else {
                        (match self.lit_bytes() { Expr::Lit(l) => l, _ => Lit::Int(7) }, Ty::Bytes)
                    };
                    let name = format!("K{i}");
                    helpers.push(Helper::ConstSimple(name.clone(), lit, ty));
                    self.consts.push((name, ty));
                }
                1 => {
                    let n = self.rng.below(4);
                    let items: Vec<V> = (0..n).map(|_| V::int(self.rng.range(1, 300))).collect();
                    let name = format!("KD{i}");
                    // a one-element or longer data list (an empty body would not be a list form)
                    let items = if items.is_empty() { vec![V::int(5)] } else { items };
                    helpers.push(Helper::ConstData(name.clone(), V::list(&items)));
                    self.consts.push((name, Ty::List));
                }
                2 => {
                    let ty = *self.rng.pick(&[Ty::Int, Ty::Bytes, Ty::List]);
                    let was = (self.cfg.allow_let, self.cfg.allow_lambda, self.cfg.allow_nested_mod);
                    self.cfg.allow_let = false;
                    self.cfg.allow_lambda = false;
                    self.cfg.allow_nested_mod = false;
                    self.in_const = true;
                    let e = self.gen_expr(ty, 2, &vec![]);
                    self.in_const = false;
                    self.cfg.allow_let = was.0;
                    self.cfg.allow_lambda = was.1;
                    self.cfg.allow_nested_mod = was.2;
                    let name = format!("KC{i}");
                    helpers.push(Helper::ConstComplex(name.clone(), e, ty));
                    self.consts.push((name, ty));
                }
                3 if self.cfg.allow_macros => {
                    let m = self.gen_macro(i);
                    self.macs.push(MacSig { name: m.name.clone(), n: m.params.len() });
                    helpers.push(Helper::Mac(m));
                }
                _ => {
                    let f = self.gen_fun(i);
                    let lf = self.lambda_free(&f.body);
                    self.funs.push(FunSig { name: f.name.clone(), params: f.params.clone(), ret: f.ret, inline: f.inline, lambda_free: lf });
                    helpers.push(Helper::Fun(f));
                }
            }
        }
        let np = 1 + self.rng.below(self.cfg.max_params);
        let params = self.gen_params(np, "A", false);
        let mut scope: Scope = vec![];
        params.vars(&mut scope);
        let ret = *self.rng.pick(&[Ty::Int, Ty::Int, Ty::Bytes, Ty::List, Ty::Any]);
        let has_at = params.render().contains("(@ ");
        let was_let = self.cfg.allow_let;
        let was_lambda = self.cfg.allow_lambda;
        if has_at && self.cfg.avoid_known {
            self.cfg.allow_let = false;
            self.cfg.allow_lambda = false;
        }
        let body = self.gen_expr(ret, self.cfg.max_depth, &scope);
        self.cfg.allow_let = was_let;
        self.cfg.allow_lambda = was_lambda;
        // present helpers in a random order: definition order must not matter
        if self.rng.chance(1, 3) {
            self.rng.shuffle(&mut helpers);
        }
        Program { params, helpers, body, ret }
    }
}

/// `(q . (v1 v2 …))` when every item is an integer literal, else `(list …)`.
fn quote_if_const(items: Vec<Expr>) -> Expr {
    let mut vals = vec![];
    for e in items.iter() {
        match e {
            Expr::Lit(Lit::Int(i)) => vals.push(V::int(*i)),
            Expr::Lit(Lit::Nil) => vals.push(V::nil()),
            _ => return Expr::List(items),
        }
    }
    Expr::Quote(V::list(&vals))
}

fn list_expr_of(items: Vec<Expr>) -> Expr {
    Expr::List(items)
}

// ------------------------------------------------------------------------------------------------
// argument generation

pub fn gen_value(rng: &mut Rng, t: Ty) -> V {
    match t {
        Ty::Int => match rng.below(8) {
            0 => V::nil(),
            1 => V::int(rng.range(-5, 5)),
            2 => V::int(*rng.pick(&[127i64, 128, 255, 256, -128, -129, 65535, 65536])),
            3 => V::int(rng.range(-1_000_000_000, 1_000_000_000)),
            _ => V::int(rng.range(1, 200)),
        },
        Ty::Bytes => match rng.below(6) {
            0 => V::nil(),
            1 => V::A(rng.bytes(32)),
            2 => V::A(b"hello world".to_vec()),
            3 => V::A(vec![0]),
            4 => V::A(vec![0, rng.next() as u8]),
            _ => V::A(rng.rbytes(1, 6)),
        },
        Ty::List => {
            let n = rng.below(5);
            let items: Vec<V> = (0..n).map(|_| V::int(rng.range(-20, 300))).collect();
            V::list(&items)
        }
        Ty::Any => match rng.below(4) {
            0 => gen_value(rng, Ty::Int),
            1 => gen_value(rng, Ty::Bytes),
            2 => gen_value(rng, Ty::List),
            _ => V::cons(gen_value(rng, Ty::Int), gen_value(rng, Ty::List)),
        },
        Ty::Clo => V::nil(), // closures cannot be supplied from outside: see has_clo_param
    }
}

pub fn gen_args(rng: &mut Rng, p: &Pat) -> V {
    match p {
        Pat::Nil => V::nil(),
        Pat::Var(_, t) => gen_value(rng, *t),
        Pat::At(_, q) => gen_args(rng, q),
        Pat::Pair(a, b) => V::cons(gen_args(rng, a), gen_args(rng, b)),
    }
}

pub fn has_clo_param(p: &Pat) -> bool {
    let mut v = vec![];
    p.vars(&mut v);
    v.iter().any(|(_, t)| *t == Ty::Clo)
}

/// Hostile variants of a fitting argument tree.
pub fn mutate_args(rng: &mut Rng, v: &V) -> V {
    match rng.below(4) {
        0 => {
            // drop the tail
            match v {
                V::P(a, _) => V::cons((**a).clone(), V::nil()),
                _ => v.clone(),
            }
        }
        1 => V::list_with_tail(&[], V::int(rng.range(0, 9))),
        2 => match v.proper_list() {
            Some(mut items) => {
                items.push(V::int(99));
                V::list(&items)
            }
            None => v.clone(),
        },
        _ => V::nil(),
    }
}


// ------------------------------------------------------------------------------------------------
// counterfactual for the legacy-integer-mode finding: the same program with every literal whose
// bytes are not a canonical integer encoding replaced by a canonical one of the same length class

fn canon_lit(l: &Lit) -> Lit {
    if lit_noncanonical(l) {
        if let Lit::Hex(b) = l {
            let mut nb = b.clone();
            // keep the width, make it canonical: first byte 0x01..0x7f, so no redundant sign byte
            nb[0] = 0x5a;
            return Lit::Hex(nb);
        }
    }
    l.clone()
}

pub fn map_lits(e: &Expr, f: &dyn Fn(&Lit) -> Lit) -> Expr {
    match e {
        Expr::Lit(l) => Expr::Lit(f(l)),
        Expr::Var(_) | Expr::Quote(_) => e.clone(),
        Expr::Prim(op, a) => Expr::Prim(op, a.iter().map(|x| map_lits(x, f)).collect()),
        Expr::List(a) => Expr::List(a.iter().map(|x| map_lits(x, f)).collect()),
        Expr::MacroCall(n, a) => Expr::MacroCall(n.clone(), a.iter().map(|x| map_lits(x, f)).collect()),
        Expr::If(a, b, c) => Expr::If(Box::new(map_lits(a, f)), Box::new(map_lits(b, f)), Box::new(map_lits(c, f))),
        Expr::Call(n, a, r) => Expr::Call(n.clone(), a.iter().map(|x| map_lits(x, f)).collect(), r.as_ref().map(|x| Box::new(map_lits(x, f)))),
        Expr::Let(k, bs, body) => Expr::Let(*k, bs.iter().map(|(p, x)| (p.clone(), map_lits(x, f))).collect(), Box::new(map_lits(body, f))),
        Expr::Lambda(c, p, b) => Expr::Lambda(c.clone(), p.clone(), Box::new(map_lits(b, f))),
        Expr::Apply(a, b) => Expr::Apply(Box::new(map_lits(a, f)), Box::new(map_lits(b, f))),
        Expr::ModVal(p) => Expr::ModVal(Rc::new(map_program_lits(p, f))),
        Expr::QQ(q) => Expr::QQ(Box::new(map_qq_lits(q, f))),
    }
}

fn map_qq_lits(q: &QQ, f: &dyn Fn(&Lit) -> Lit) -> QQ {
    match q {
        QQ::Data(v) => QQ::Data(v.clone()),
        QQ::Unquote(e) => QQ::Unquote(map_lits(e, f)),
        QQ::Cons(a, b) => QQ::Cons(Box::new(map_qq_lits(a, f)), Box::new(map_qq_lits(b, f))),
    }
}

pub fn map_program_lits(p: &Program, f: &dyn Fn(&Lit) -> Lit) -> Program {
    let helpers = p
        .helpers
        .iter()
        .map(|h| match h {
            Helper::Fun(fun) => Helper::Fun(Fun { body: map_lits(&fun.body, f), ..fun.clone() }),
            Helper::ConstSimple(n, l, t) => Helper::ConstSimple(n.clone(), f(l), *t),
            Helper::ConstData(n, v) => Helper::ConstData(n.clone(), v.clone()),
            Helper::ConstComplex(n, e, t) => Helper::ConstComplex(n.clone(), map_lits(e, f), *t),
            Helper::Mac(m) => Helper::Mac(Mac { template: map_lits(&m.template, f), ..m.clone() }),
        })
        .collect();
    Program { params: p.params.clone(), helpers, body: map_lits(&p.body, f), ret: p.ret }
}

pub fn neutralize_zero_led(p: &Program) -> Program {
    map_program_lits(p, &canon_lit)
}

/// The same program with its helpers moved into an include file: returns (main text, include text).
pub fn render_program_split(p: &Program, d: Dialect, inc_name: &str) -> (String, String) {
    let mut main = format!("(mod {}", p.params.render());
    if let Some(sig) = d.sigil() {
        main.push_str(&format!("\n  (include {sig})"));
    }
    main.push_str(&format!("\n  (include {inc_name})"));
    main.push_str("\n  ");
    main.push_str(&render_expr(&p.body, d));
    main.push_str("\n)\n");
    let mut inc = String::from("(\n");
    for h in p.helpers.iter() {
        inc.push_str("  ");
        inc.push_str(&render_helper(h, d));
        inc.push('\n');
    }
    inc.push_str(")\n");
    (main, inc)
}
