// Reference interpreter: call-by-value, environment passing evaluation of the harness AST.
// Every primitive operator application is delegated to clvmr (the consensus evaluator); the
// interpreter itself only gives meaning to binding and abstraction constructs (DESIGN.md App. A).
#![allow(dead_code)]

use std::cell::RefCell;
use std::collections::{BTreeMap, BTreeSet};
use std::rc::Rc;

use crate::common::*;
use crate::gen::*;

#[derive(Clone, Debug)]
pub enum RV {
    V(V),
    Clo(Rc<Closure>),
    Pair(Rc<RV>, Rc<RV>), // only when a closure occurs somewhere inside
}

#[derive(Debug)]
pub enum Closure {
    Lambda { caps: Vec<(String, Bind)>, params: Pat, body: Expr, globals: Rc<Globals> },
    Mod(Rc<Program>),
}

#[derive(Clone, Debug)]
pub enum Bind {
    Val(RV),
    Missing,
}

#[derive(Clone, Debug, PartialEq, Eq)]
pub enum Stop {
    Fail(String),
    Fuel,
    Opaque(String),
    Harness(String),
}

#[derive(Clone, Debug, PartialEq, Eq)]
pub enum RefOutcome {
    Val(V),
    Fail(String),
    Fuel,
    Opaque(String),
    Harness(String),
}

#[derive(Debug)]
pub struct Globals {
    pub funs: BTreeMap<String, Fun>,
    pub consts: BTreeMap<String, Helper>,
    pub macs: BTreeMap<String, Mac>,
    pub memo: RefCell<BTreeMap<String, Result<RV, Stop>>>,
}

pub fn globals_of(p: &Program) -> Rc<Globals> {
    let mut g = Globals { funs: BTreeMap::new(), consts: BTreeMap::new(), macs: BTreeMap::new(), memo: RefCell::new(BTreeMap::new()) };
    for h in p.helpers.iter() {
        match h {
            Helper::Fun(f) => {
                g.funs.insert(f.name.clone(), f.clone());
            }
            Helper::ConstSimple(n, _, _) | Helper::ConstData(n, _) | Helper::ConstComplex(n, _, _) => {
                g.consts.insert(n.clone(), h.clone());
            }
            Helper::Mac(m) => {
                g.macs.insert(m.name.clone(), m.clone());
            }
        }
    }
    Rc::new(g)
}

pub fn opcode_of(name: &str) -> Option<Vec<u8>> {
    crate::engines::c20::spec_table().into_iter().find(|(n, _, _)| *n == name).map(|(_, o, _)| o)
}

pub fn lit_value(l: &Lit) -> V {
    match l {
        Lit::Int(i) => V::int(*i),
        Lit::BigInt(s) => {
            let n: num_bigint::BigInt = s.parse().expect("bigint literal");
            if n == num_bigint::BigInt::from(0) {
                V::nil()
            } else {
                V::A(n.to_signed_bytes_be())
            }
        }
        Lit::Str(b, _) => V::A(b.clone()),
        Lit::Hex(b) => V::A(b.clone()),
        Lit::Nil => V::nil(),
    }
}

fn rcons(a: RV, b: RV) -> RV {
    match (&a, &b) {
        (RV::V(x), RV::V(y)) => RV::V(V::cons(x.clone(), y.clone())),
        _ => RV::Pair(Rc::new(a), Rc::new(b)),
    }
}

fn rfirst(v: &RV) -> Option<RV> {
    match v {
        RV::V(V::P(a, _)) => Some(RV::V((**a).clone())),
        RV::Pair(a, _) => Some((**a).clone()),
        _ => None,
    }
}

fn rrest(v: &RV) -> Option<RV> {
    match v {
        RV::V(V::P(_, b)) => Some(RV::V((**b).clone())),
        RV::Pair(_, b) => Some((**b).clone()),
        _ => None,
    }
}

fn truthy(v: &RV) -> bool {
    match v {
        RV::V(V::A(b)) => !b.is_empty(),
        _ => true,
    }
}

fn plain(v: &RV) -> Option<V> {
    match v {
        RV::V(x) => Some(x.clone()),
        _ => None,
    }
}

pub type Env = Vec<(String, Bind)>;

fn lookup<'a>(env: &'a Env, n: &str) -> Option<&'a Bind> {
    env.iter().rev().find(|(k, _)| k == n).map(|(_, b)| b)
}

/// Destructure `val` against `pat`; positions that do not exist bind to Missing (an error only when
/// the variable is used).
pub fn destructure(pat: &Pat, val: Option<&RV>, out: &mut Env) {
    match pat {
        Pat::Nil => {}
        Pat::Var(n, _) => out.push((n.clone(), match val { Some(v) => Bind::Val(v.clone()), None => Bind::Missing })),
        Pat::At(n, p) => {
            out.push((n.clone(), match val { Some(v) => Bind::Val(v.clone()), None => Bind::Missing }));
            destructure(p, val, out);
        }
        Pat::Pair(a, b) => {
            let (f, r) = match val {
                Some(v) => (rfirst(v), rrest(v)),
                None => (None, None),
            };
            destructure(a, f.as_ref(), out);
            destructure(b, r.as_ref(), out);
        }
    }
}

pub fn free_vars(e: &Expr, out: &mut BTreeSet<String>) {
    match e {
        Expr::Lit(_) | Expr::Quote(_) | Expr::ModVal(_) => {}
        Expr::Var(n) => {
            out.insert(n.clone());
        }
        Expr::Prim(_, a) | Expr::List(a) | Expr::MacroCall(_, a) => a.iter().for_each(|x| free_vars(x, out)),
        Expr::If(a, b, c) => {
            free_vars(a, out);
            free_vars(b, out);
            free_vars(c, out);
        }
        Expr::Call(_, a, r) => {
            a.iter().for_each(|x| free_vars(x, out));
            if let Some(r) = r {
                free_vars(r, out);
            }
        }
        Expr::Let(_, bs, body) => {
            bs.iter().for_each(|(_, x)| free_vars(x, out));
            free_vars(body, out);
        }
        Expr::Lambda(caps, _, _) => caps.iter().for_each(|c| {
            out.insert(c.clone());
        }),
        Expr::Apply(a, b) => {
            free_vars(a, out);
            free_vars(b, out);
        }
        Expr::QQ(q) => qq_free(q, out),
    }
}

fn qq_free(q: &QQ, out: &mut BTreeSet<String>) {
    match q {
        QQ::Data(_) => {}
        QQ::Unquote(e) => free_vars(e, out),
        QQ::Cons(a, b) => {
            qq_free(a, out);
            qq_free(b, out);
        }
    }
}

fn subst(e: &Expr, m: &BTreeMap<String, Expr>) -> Expr {
    match e {
        Expr::Var(n) => m.get(n).cloned().unwrap_or_else(|| e.clone()),
        Expr::Prim(op, a) => Expr::Prim(op, a.iter().map(|x| subst(x, m)).collect()),
        Expr::If(a, b, c) => Expr::If(Box::new(subst(a, m)), Box::new(subst(b, m)), Box::new(subst(c, m))),
        Expr::Call(n, a, r) => Expr::Call(n.clone(), a.iter().map(|x| subst(x, m)).collect(), r.as_ref().map(|x| Box::new(subst(x, m)))),
        Expr::List(a) => Expr::List(a.iter().map(|x| subst(x, m)).collect()),
        other => other.clone(),
    }
}

pub struct Interp {
    pub fuel: i64,
}

impl Interp {
    fn tick(&mut self) -> Result<(), Stop> {
        self.fuel -= 1;
        if self.fuel < 0 {
            Err(Stop::Fuel)
        } else {
            Ok(())
        }
    }

    fn constant(&mut self, g: &Rc<Globals>, n: &str) -> Option<Result<RV, Stop>> {
        let h = g.consts.get(n)?;
        if let Some(r) = g.memo.borrow().get(n) {
            return Some(r.clone());
        }
        let r = match h {
            Helper::ConstSimple(_, l, _) => Ok(RV::V(lit_value(l))),
            Helper::ConstData(_, v) => Ok(RV::V(v.clone())),
            Helper::ConstComplex(_, e, _) => {
                // evaluated with all helpers visible and no local variables
                g.memo.borrow_mut().insert(n.to_string(), Err(Stop::Fail("cyclic constant".into())));
                self.eval(e, &vec![], g)
            }
            _ => Err(Stop::Harness("not a constant".into())),
        };
        g.memo.borrow_mut().insert(n.to_string(), r.clone());
        Some(r)
    }

    pub fn eval(&mut self, e: &Expr, env: &Env, g: &Rc<Globals>) -> Result<RV, Stop> {
        self.tick()?;
        match e {
            Expr::Lit(l) => Ok(RV::V(lit_value(l))),
            Expr::Quote(v) => Ok(RV::V(v.clone())),
            Expr::Var(n) => match lookup(env, n) {
                Some(Bind::Val(v)) => Ok(v.clone()),
                Some(Bind::Missing) => Err(Stop::Fail(format!("parameter {n} not supplied"))),
                None => match self.constant(g, n) {
                    Some(r) => r,
                    None => Err(Stop::Harness(format!("unbound variable {n} in generated program"))),
                },
            },
            Expr::Prim(op, args) => {
                let mut vals: Vec<RV> = vec![];
                for a in args {
                    vals.push(self.eval(a, env, g)?);
                }
                self.prim(op, vals)
            }
            Expr::If(c, a, b) => {
                let cv = self.eval(c, env, g)?;
                if truthy(&cv) {
                    self.eval(a, env, g)
                } else {
                    self.eval(b, env, g)
                }
            }
            Expr::List(items) => {
                let mut vals: Vec<RV> = vec![];
                for a in items {
                    vals.push(self.eval(a, env, g)?);
                }
                let mut r = RV::V(V::nil());
                for v in vals.into_iter().rev() {
                    r = rcons(v, r);
                }
                Ok(r)
            }
            Expr::Call(name, args, rest) => {
                let f = match g.funs.get(name) {
                    Some(f) => f.clone(),
                    None => return Err(Stop::Harness(format!("call of unknown function {name}"))),
                };
                let mut vals: Vec<RV> = vec![];
                for a in args {
                    vals.push(self.eval(a, env, g)?);
                }
                let mut arglist = match rest {
                    Some(r) => self.eval(r, env, g)?,
                    None => RV::V(V::nil()),
                };
                for v in vals.into_iter().rev() {
                    arglist = rcons(v, arglist);
                }
                let mut fenv: Env = vec![];
                destructure(&f.params, Some(&arglist), &mut fenv);
                self.eval(&f.body, &fenv, g)
            }
            Expr::Let(kind, bindings, body) => {
                let mut inner = env.clone();
                match kind {
                    LetKind::Let => {
                        let mut vals = vec![];
                        for (_, e) in bindings {
                            vals.push(self.eval(e, env, g)?);
                        }
                        for ((p, _), v) in bindings.iter().zip(vals.iter()) {
                            destructure(p, Some(v), &mut inner);
                        }
                    }
                    LetKind::LetStar => {
                        for (p, e) in bindings {
                            let v = self.eval(e, &inner, g)?;
                            destructure(p, Some(&v), &mut inner);
                        }
                    }
                    _ => {
                        // dependency order
                        let mut names: Vec<BTreeSet<String>> = vec![];
                        for (p, _) in bindings {
                            let mut vs = vec![];
                            p.vars(&mut vs);
                            names.push(vs.into_iter().map(|x| x.0).collect());
                        }
                        let all: BTreeSet<String> = names.iter().flatten().cloned().collect();
                        let mut done = vec![false; bindings.len()];
                        let mut bound: BTreeSet<String> = BTreeSet::new();
                        for _ in 0..bindings.len() {
                            let mut progressed = false;
                            for (i, (p, e)) in bindings.iter().enumerate() {
                                if done[i] {
                                    continue;
                                }
                                let mut fv = BTreeSet::new();
                                free_vars(e, &mut fv);
                                let needs: Vec<&String> = fv.iter().filter(|n| all.contains(*n) && !names[i].contains(*n)).collect();
                                if needs.iter().all(|n| bound.contains(*n)) {
                                    let v = self.eval(e, &inner, g)?;
                                    destructure(p, Some(&v), &mut inner);
                                    bound.extend(names[i].iter().cloned());
                                    done[i] = true;
                                    progressed = true;
                                }
                            }
                            if !progressed {
                                break;
                            }
                        }
                        if done.iter().any(|d| !d) {
                            return Err(Stop::Harness("assign bindings form a cycle in a generated program".into()));
                        }
                    }
                }
                self.eval(body, &inner, g)
            }
            Expr::Lambda(caps, params, body) => {
                let mut cv = vec![];
                for c in caps {
                    match lookup(env, c) {
                        Some(b) => cv.push((c.clone(), b.clone())),
                        None => match self.constant(g, c) {
                            Some(r) => cv.push((c.clone(), Bind::Val(r?))),
                            None => return Err(Stop::Harness(format!("capture of unbound {c}"))),
                        },
                    }
                }
                // a Missing capture is an error at creation: captures are evaluated then
                for (n, b) in cv.iter() {
                    if matches!(b, Bind::Missing) {
                        return Err(Stop::Fail(format!("captured parameter {n} not supplied")));
                    }
                }
                Ok(RV::Clo(Rc::new(Closure::Lambda { caps: cv, params: params.clone(), body: (**body).clone(), globals: g.clone() })))
            }
            Expr::ModVal(p) => Ok(RV::Clo(Rc::new(Closure::Mod(p.clone())))),
            Expr::Apply(f, a) => {
                let fv = self.eval(f, env, g)?;
                let av = self.eval(a, env, g)?;
                match fv {
                    RV::Clo(c) => self.apply(&c, &av),
                    _ => Err(Stop::Opaque("apply of a non-closure value".into())),
                }
            }
            Expr::MacroCall(name, args) => {
                let m = match g.macs.get(name) {
                    Some(m) => m.clone(),
                    None => return Err(Stop::Harness(format!("unknown macro {name}"))),
                };
                let mut map = BTreeMap::new();
                for (p, a) in m.params.iter().zip(args.iter()) {
                    map.insert(p.clone(), a.clone());
                }
                let expanded = subst(&m.template, &map);
                self.eval(&expanded, env, g)
            }
            Expr::QQ(q) => self.qq(q, env, g),
        }
    }

    fn qq(&mut self, q: &QQ, env: &Env, g: &Rc<Globals>) -> Result<RV, Stop> {
        match q {
            QQ::Data(v) => Ok(RV::V(v.clone())),
            QQ::Unquote(e) => self.eval(e, env, g),
            QQ::Cons(a, b) => {
                let x = self.qq(a, env, g)?;
                let y = self.qq(b, env, g)?;
                Ok(rcons(x, y))
            }
        }
    }

    pub fn apply(&mut self, c: &Closure, args: &RV) -> Result<RV, Stop> {
        self.tick()?;
        match c {
            Closure::Lambda { caps, params, body, globals } => {
                let mut env: Env = caps.clone();
                destructure(params, Some(args), &mut env);
                self.eval(body, &env, globals)
            }
            Closure::Mod(p) => {
                let g = globals_of(p);
                let mut env: Env = vec![];
                destructure(&p.params, Some(args), &mut env);
                self.eval(&p.body, &env, &g)
            }
        }
    }

    fn prim(&mut self, op: &str, vals: Vec<RV>) -> Result<RV, Stop> {
        // structural operators work on values that contain closures too
        match (op, vals.len()) {
            ("c", 2) => return Ok(rcons(vals[0].clone(), vals[1].clone())),
            ("f", 1) => {
                if !matches!(vals[0], RV::V(_)) {
                    return rfirst(&vals[0]).ok_or_else(|| Stop::Fail("first of non-cons".into()));
                }
            }
            ("r", 1) => {
                if !matches!(vals[0], RV::V(_)) {
                    return rrest(&vals[0]).ok_or_else(|| Stop::Fail("rest of non-cons".into()));
                }
            }
            ("l", 1) => {
                if !matches!(vals[0], RV::V(_)) {
                    return Ok(RV::V(V::int(if matches!(vals[0], RV::Pair(_, _)) { 1 } else { 0 })));
                }
            }
            ("x", _) => return Err(Stop::Fail("raise".into())),
            _ => {}
        }
        let mut plainv: Vec<V> = vec![];
        for v in vals.iter() {
            match plain(v) {
                Some(p) => plainv.push(p),
                None => return Err(Stop::Opaque(format!("operator {op} applied to a closure"))),
            }
        }
        let code = opcode_of(op).ok_or_else(|| Stop::Harness(format!("unknown operator {op}")))?;
        match consensus_apply_op(&code, &plainv) {
            Outcome::Val(v) => Ok(RV::V(v)),
            Outcome::Fail(m) => Err(Stop::Fail(m)),
            Outcome::CostCap => Err(Stop::Fuel),
        }
    }
}

pub fn run_program(p: &Program, args: &V) -> RefOutcome {
    run_program_fuel(p, args, 200_000)
}

pub fn run_program_fuel(p: &Program, args: &V, fuel: i64) -> RefOutcome {
    let g = globals_of(p);
    let mut env: Env = vec![];
    let a = RV::V(args.clone());
    destructure(&p.params, Some(&a), &mut env);
    // An argument tree that leaves a declared parameter without a position is outside the
    // comparison: whether code that never uses the parameter may still touch its position is not
    // fixed by the language definition.
    if env.iter().any(|(_, b)| matches!(b, Bind::Missing)) {
        return RefOutcome::Opaque("argument tree does not supply every parameter".into());
    }
    let mut it = Interp { fuel };
    // defconst bodies are evaluated once, at definition: a constant that cannot be evaluated makes
    // the whole program meaningless (the compiler rejects it), whether or not it is used
    let names: Vec<String> = g.consts.keys().cloned().collect();
    for n in names {
        if let Some(Err(stop)) = it.constant(&g, &n) {
            return match stop {
                Stop::Fail(m) => RefOutcome::Fail(format!("constant {n}: {m}")),
                Stop::Fuel => RefOutcome::Fuel,
                Stop::Opaque(m) => RefOutcome::Opaque(m),
                Stop::Harness(m) => RefOutcome::Harness(m),
            };
        }
    }
    match it.eval(&p.body, &env, &g) {
        Ok(RV::V(v)) => RefOutcome::Val(v),
        Ok(_) => RefOutcome::Opaque("result contains a closure".into()),
        Err(Stop::Fail(m)) => RefOutcome::Fail(m),
        Err(Stop::Fuel) => RefOutcome::Fuel,
        Err(Stop::Opaque(m)) => RefOutcome::Opaque(m),
        Err(Stop::Harness(m)) => RefOutcome::Harness(m),
    }
}

/// Evaluate one helper function of a program on an argument list (used by C13).
pub fn run_function(p: &Program, name: &str, arglist: &V) -> RefOutcome {
    let g = globals_of(p);
    let f = match g.funs.get(name) {
        Some(f) => f.clone(),
        None => return RefOutcome::Harness(format!("no function {name}")),
    };
    let mut env: Env = vec![];
    destructure(&f.params, Some(&RV::V(arglist.clone())), &mut env);
    let mut it = Interp { fuel: 200_000 };
    match it.eval(&f.body, &env, &g) {
        Ok(RV::V(v)) => RefOutcome::Val(v),
        Ok(_) => RefOutcome::Opaque("result contains a closure".into()),
        Err(Stop::Fail(m)) => RefOutcome::Fail(m),
        Err(Stop::Fuel) => RefOutcome::Fuel,
        Err(Stop::Opaque(m)) => RefOutcome::Opaque(m),
        Err(Stop::Harness(m)) => RefOutcome::Harness(m),
    }
}
