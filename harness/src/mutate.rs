// Text mutations for the front-end robustness checks (C14, C15 error clause).
#![allow(dead_code)]

use crate::common::*;

pub fn tokenize(text: &str) -> Vec<String> {
    let b: Vec<char> = text.chars().collect();
    let mut out = vec![];
    let mut i = 0;
    while i < b.len() {
        let c = b[i];
        if c.is_whitespace() {
            let mut j = i;
            while j < b.len() && b[j].is_whitespace() {
                j += 1;
            }
            out.push(b[i..j].iter().collect());
            i = j;
        } else if c == '(' || c == ')' {
            out.push(c.to_string());
            i += 1;
        } else if c == '"' || c == '\'' {
            let mut j = i + 1;
            while j < b.len() && b[j] != c {
                if b[j] == '\\' {
                    j += 1;
                }
                j += 1;
            }
            let j = (j + 1).min(b.len());
            out.push(b[i..j].iter().collect());
            i = j;
        } else if c == ';' {
            let mut j = i;
            while j < b.len() && b[j] != '\n' {
                j += 1;
            }
            out.push(b[i..j].iter().collect());
            i = j;
        } else {
            let mut j = i;
            while j < b.len() && !b[j].is_whitespace() && b[j] != '(' && b[j] != ')' {
                j += 1;
            }
            out.push(b[i..j].iter().collect());
            i = j;
        }
    }
    out
}

pub const SOUP: &[&str] = &[
    "(", ")", "(", ")", " ", " ", "\n", ".", "mod", "defun", "defun-inline", "defmacro", "defmac", "defconstant", "defconst", "include", "embed-file", "compile-file",
    "*standard-cl-21*", "*strict-cl-21*", "*standard-cl-22*", "*standard-cl-23*", "*standard-cl-23.1*", "*standard-cl-24*", "let", "let*", "assign", "assign-lambda",
    "assign-inline", "lambda", "&", "&rest", "@", "if", "list", "qq", "unquote", "q", "a", "c", "f", "r", "i", "l", "x", "+", "-", "*", "/", "=", ">", ">s", "sha256",
    "concat", "com", "opt", "quote", "\"", "'", "\"s\"", "'t'", "0x", "0x00", "0xff", "-1", "0", "1", "99999999999999999999999", "X", "Y", "foo", "#a", "#(", ";c\n", "\\",
    "bin", "hex", "sexp", "macros", "1 . 2", "()", "(())", "(q . 1)", "(mod (X) X)", "(defun f (X) X)", "(include *standard-cl-23*)",
    // special forms with no operands at all
    "(com)", "(opt)", "(a)", "(i)", "(qq)", "(unquote)", "(lambda)", "(let)", "(let*)", "(assign)", "(if)", "(list)", "(defconst K (com))", "(defconstant K (qq))", "(mod () (com))", "(defun f () (com))",
];

pub fn nesting(text: &str) -> usize {
    let mut d: i64 = 0;
    let mut m: i64 = 0;
    for c in text.chars() {
        if c == '(' {
            d += 1;
            m = m.max(d);
        } else if c == ')' {
            d -= 1;
        }
    }
    m.max(0) as usize
}

/// One mutant of `text` (token level, byte level or splice with `other`).
pub fn mutate(rng: &mut Rng, text: &str, other: &str) -> Vec<u8> {
    let toks = tokenize(text);
    let join = |t: &Vec<String>| t.concat().into_bytes();
    if toks.is_empty() {
        return text.as_bytes().to_vec();
    }
    let mut m = match rng.below(12) {
        0 => {
            let mut t = toks.clone();
            let k = rng.below(t.len());
            t.remove(k);
            join(&t)
        }
        1 => {
            let mut t = toks.clone();
            let k = rng.below(t.len());
            let d = t[k].clone();
            t.insert(k, d);
            join(&t)
        }
        2 => {
            let mut t = toks.clone();
            let a = rng.below(t.len());
            let b = rng.below(t.len());
            t.swap(a, b);
            join(&t)
        }
        3 | 4 => {
            let mut t = toks.clone();
            let k = rng.below(t.len());
            t[k] = rng.pick(SOUP).to_string();
            join(&t)
        }
        5 => {
            let mut t = toks.clone();
            let k = rng.below(t.len());
            t.insert(k, format!("{} ", rng.pick(SOUP)));
            join(&t)
        }
        6 => {
            let b = text.as_bytes();
            let k = rng.below(b.len().max(1));
            b[..k].to_vec()
        }
        7 => {
            let mut b = text.as_bytes().to_vec();
            let k = rng.below(b.len().max(1));
            if !b.is_empty() {
                b[k] ^= 1 << rng.below(8);
            }
            b
        }
        8 => {
            let mut b = text.as_bytes().to_vec();
            let k = rng.below(b.len() + 1);
            for x in rng.rbytes(1, 4) {
                b.insert(k.min(b.len()), x);
            }
            b
        }
        9 => {
            // splice two sources
            let a = text.as_bytes();
            let o = other.as_bytes();
            let k = rng.below(a.len().max(1));
            let j = rng.below(o.len().max(1));
            let mut b = a[..k].to_vec();
            b.extend_from_slice(&o[j..]);
            b
        }
        10 => {
            // delete a whole balanced group
            let mut t = toks.clone();
            let opens: Vec<usize> = t.iter().enumerate().filter(|(_, x)| *x == "(").map(|(i, _)| i).collect();
            if let Some(&st) = opens.get(rng.below(opens.len().max(1))) {
                let mut d = 0i32;
                let mut e = st;
                for (i, x) in t.iter().enumerate().skip(st) {
                    if x == "(" {
                        d += 1;
                    } else if x == ")" {
                        d -= 1;
                        if d == 0 {
                            e = i;
                            break;
                        }
                    }
                }
                t.drain(st..=e.min(t.len() - 1));
            }
            join(&t)
        }
        _ => {
            // replace a bareword/number token by another token of the same text
            let mut t = toks.clone();
            let a = rng.below(t.len());
            let b = rng.below(t.len());
            let v = t[b].clone();
            t[a] = v;
            join(&t)
        }
    };
    if m.len() > 6000 {
        m.truncate(6000);
    }
    m
}

pub fn soup(rng: &mut Rng) -> Vec<u8> {
    let n = 1 + rng.below(40);
    let mut s = String::new();
    let mut depth = 0usize;
    for _ in 0..n {
        let t = *rng.pick(SOUP);
        if t == "(" || t == "#(" {
            if depth >= 150 {
                continue;
            }
            depth += 1;
        }
        s.push_str(t);
        if rng.chance(2, 3) {
            s.push(' ');
        }
    }
    // mostly close what was opened
    if rng.chance(2, 3) {
        for _ in 0..depth {
            s.push(')');
        }
    }
    s.into_bytes()
}
