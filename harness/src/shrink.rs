// AST-level shrinker: reduces a generated program while a predicate keeps holding.
#![allow(dead_code)]

use crate::gen::*;

fn children(e: &Expr) -> Vec<Expr> {
    match e {
        Expr::Lit(_) | Expr::Var(_) | Expr::Quote(_) | Expr::ModVal(_) => vec![],
        Expr::Prim(_, a) | Expr::List(a) | Expr::MacroCall(_, a) => a.clone(),
        Expr::If(a, b, c) => vec![(**a).clone(), (**b).clone(), (**c).clone()],
        Expr::Call(_, a, r) => {
            let mut v = a.clone();
            if let Some(r) = r {
                v.push((**r).clone());
            }
            v
        }
        Expr::Let(_, bs, body) => {
            let mut v: Vec<Expr> = bs.iter().map(|b| b.1.clone()).collect();
            v.push((**body).clone());
            v
        }
        Expr::Lambda(_, _, body) => vec![(**body).clone()],
        Expr::Apply(a, b) => vec![(**a).clone(), (**b).clone()],
        Expr::QQ(q) => {
            let mut v = vec![];
            qq_children(q, &mut v);
            v
        }
    }
}

fn qq_children(q: &QQ, out: &mut Vec<Expr>) {
    match q {
        QQ::Data(_) => {}
        QQ::Unquote(e) => out.push(e.clone()),
        QQ::Cons(a, b) => {
            qq_children(a, out);
            qq_children(b, out);
        }
    }
}

fn with_children(e: &Expr, ch: Vec<Expr>) -> Expr {
    let mut it = ch.into_iter();
    match e {
        Expr::Lit(_) | Expr::Var(_) | Expr::Quote(_) | Expr::ModVal(_) => e.clone(),
        Expr::Prim(op, a) => Expr::Prim(op, it.by_ref().take(a.len()).collect()),
        Expr::List(a) => Expr::List(it.by_ref().take(a.len()).collect()),
        Expr::MacroCall(n, a) => Expr::MacroCall(n.clone(), it.by_ref().take(a.len()).collect()),
        Expr::If(_, _, _) => {
            let a = it.next().unwrap();
            let b = it.next().unwrap();
            let c = it.next().unwrap();
            Expr::If(Box::new(a), Box::new(b), Box::new(c))
        }
        Expr::Call(n, a, r) => {
            let args: Vec<Expr> = it.by_ref().take(a.len()).collect();
            let rest = if r.is_some() { Some(Box::new(it.next().unwrap())) } else { None };
            Expr::Call(n.clone(), args, rest)
        }
        Expr::Let(k, bs, _) => {
            let nb: Vec<(Pat, Expr)> = bs.iter().map(|b| (b.0.clone(), it.next().unwrap())).collect();
            let body = it.next().unwrap();
            Expr::Let(*k, nb, Box::new(body))
        }
        Expr::Lambda(c, p, _) => Expr::Lambda(c.clone(), p.clone(), Box::new(it.next().unwrap())),
        Expr::Apply(_, _) => {
            let a = it.next().unwrap();
            let b = it.next().unwrap();
            Expr::Apply(Box::new(a), Box::new(b))
        }
        Expr::QQ(q) => Expr::QQ(Box::new(qq_with(q, &mut it))),
    }
}

fn qq_with(q: &QQ, it: &mut std::vec::IntoIter<Expr>) -> QQ {
    match q {
        QQ::Data(v) => QQ::Data(v.clone()),
        QQ::Unquote(_) => QQ::Unquote(it.next().unwrap()),
        QQ::Cons(a, b) => {
            let x = qq_with(a, it);
            let y = qq_with(b, it);
            QQ::Cons(Box::new(x), Box::new(y))
        }
    }
}

pub fn count(e: &Expr) -> usize {
    1 + children(e).iter().map(count).sum::<usize>()
}

/// Replace the n-th node (preorder) by f(node).
fn map_nth(e: &Expr, n: &mut isize, f: &dyn Fn(&Expr) -> Expr) -> Expr {
    if *n == 0 {
        *n = -1;
        return f(e);
    }
    if *n < 0 {
        return e.clone();
    }
    *n -= 1;
    let ch: Vec<Expr> = children(e).iter().map(|c| map_nth(c, n, f)).collect();
    with_children(e, ch)
}

fn get_nth(e: &Expr, n: &mut isize) -> Option<Expr> {
    if *n == 0 {
        return Some(e.clone());
    }
    *n -= 1;
    for c in children(e) {
        if let Some(x) = get_nth(&c, n) {
            return Some(x);
        }
        if *n < 0 {
            return None;
        }
    }
    None
}

fn candidates(e: &Expr) -> Vec<Expr> {
    let mut v: Vec<Expr> = children(e);
    // Let: drop one binding
    if let Expr::Let(k, bs, body) = e {
        for i in 0..bs.len() {
            let mut nb = bs.clone();
            nb.remove(i);
            if nb.is_empty() {
                v.push((**body).clone());
            } else {
                v.push(Expr::Let(*k, nb, body.clone()));
            }
        }
        if *k != LetKind::Let {
            v.push(Expr::Let(LetKind::Let, bs.clone(), body.clone()));
        }
    }
    if let Expr::Call(n, a, Some(_)) = e {
        v.push(Expr::Call(n.clone(), a.clone(), None));
    }
    if let Expr::Prim(op, a) = e {
        if a.len() > 2 {
            v.push(Expr::Prim(op, a[..2].to_vec()));
        }
    }
    if let Expr::Lambda(c, p, b) = e {
        if !c.is_empty() {
            v.push(Expr::Lambda(vec![], p.clone(), b.clone()));
        }
    }
    if !matches!(e, Expr::Lit(_)) {
        v.push(Expr::Lit(Lit::Int(1)));
        v.push(Expr::Lit(Lit::Nil));
        v.push(Expr::Lit(Lit::Int(77)));
    } else if let Expr::Lit(l) = e {
        if *l != Lit::Int(1) && *l != Lit::Nil {
            v.push(Expr::Lit(Lit::Int(1)));
        }
    }
    v
}

pub fn size(p: &Program) -> usize {
    let mut n = count(&p.body);
    for h in p.helpers.iter() {
        n += 3 + match h {
            Helper::Fun(f) => count(&f.body),
            Helper::ConstComplex(_, e, _) => count(e),
            _ => 1,
        };
    }
    n
}

fn slots(p: &Program) -> usize {
    1 + p.helpers.len()
}

fn slot_expr(p: &Program, s: usize) -> Option<Expr> {
    if s == 0 {
        return Some(p.body.clone());
    }
    match &p.helpers[s - 1] {
        Helper::Fun(f) => Some(f.body.clone()),
        Helper::ConstComplex(_, e, _) => Some(e.clone()),
        _ => None,
    }
}

fn with_slot(p: &Program, s: usize, e: Expr) -> Program {
    let mut q = p.clone();
    if s == 0 {
        q.body = e;
        return q;
    }
    match &mut q.helpers[s - 1] {
        Helper::Fun(f) => f.body = e,
        Helper::ConstComplex(_, x, _) => *x = e,
        _ => {}
    }
    q
}

pub fn shrink(p0: &Program, pred: &mut dyn FnMut(&Program) -> bool, budget: usize) -> Program {
    let mut p = p0.clone();
    let mut calls = 0usize;
    let mut changed = true;
    while changed && calls < budget {
        changed = false;
        // remove helpers
        let mut i = 0;
        while i < p.helpers.len() {
            let mut q = p.clone();
            q.helpers.remove(i);
            calls += 1;
            if pred(&q) {
                p = q;
                changed = true;
            } else {
                i += 1;
            }
        }
        // make inline functions non-inline (simpler compilation path) when the failure survives
        for i in 0..p.helpers.len() {
            if let Helper::Fun(f) = &p.helpers[i] {
                if f.inline {
                    let mut q = p.clone();
                    if let Helper::Fun(g) = &mut q.helpers[i] {
                        g.inline = false;
                    }
                    calls += 1;
                    if pred(&q) {
                        p = q;
                        changed = true;
                    }
                }
            }
        }
        // shrink expressions
        for s in 0..slots(&p) {
            let mut n = 0usize;
            loop {
                let e = match slot_expr(&p, s) {
                    Some(e) => e,
                    None => break,
                };
                if n >= count(&e) || calls >= budget {
                    break;
                }
                let mut k = n as isize;
                let node = match get_nth(&e, &mut k) {
                    Some(x) => x,
                    None => break,
                };
                let mut improved = false;
                for cand in candidates(&node) {
                    if count(&cand) >= count(&node) && !matches!(node, Expr::Let(_, _, _) | Expr::Lit(_)) {
                        continue;
                    }
                    let mut k2 = n as isize;
                    let c2 = cand.clone();
                    let ne = map_nth(&e, &mut k2, &move |_| c2.clone());
                    let q = with_slot(&p, s, ne);
                    calls += 1;
                    if pred(&q) {
                        p = q;
                        improved = true;
                        changed = true;
                        break;
                    }
                }
                if !improved {
                    n += 1;
                }
            }
        }
    }
    p
}
