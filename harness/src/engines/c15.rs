// C15 — source locations point at the text they describe.
use std::rc::Rc;

use serde_json::json;

use chialisp::compiler::compiler::{ADVANCED_MACROS, STANDARD_MACROS};
use chialisp::compiler::dialect::KNOWN_DIALECTS;
use chialisp::compiler::sexp::{parse_sexp, ParsePartialResult, SExp};
use chialisp::compiler::srcloc::{src_location_max, src_location_min, Srcloc};

use crate::common::*;
use crate::repo::Loc;

// ------------------------------------------------------------------------------------------------
// layout generator: the harness places every token itself, so it knows every span

#[derive(Clone, Debug)]
pub enum Tok {
    Leaf { text: String, kind: &'static str, line: usize, col: usize },
    List { items: Vec<Tok>, tail: Option<Box<Tok>>, open: (usize, usize), close: (usize, usize), structured: bool },
}

pub struct Layout {
    pub text: String,
    line: usize,
    col: usize,
}

impl Layout {
    fn new() -> Layout {
        Layout { text: String::new(), line: 1, col: 1 }
    }
    fn put(&mut self, s: &str) -> (usize, usize) {
        let at = (self.line, self.col);
        for ch in s.chars() {
            self.text.push(ch);
            if ch == '\n' {
                self.line += 1;
                self.col = 1;
            } else {
                self.col += 1;
            }
        }
        at
    }
    fn space(&mut self, rng: &mut Rng, need: bool) {
        let n = rng.below(4);
        if n == 0 && need {
            self.put(" ");
            return;
        }
        for _ in 0..n {
            match rng.below(10) {
                0 => {
                    self.put("\n");
                }
                1 => {
                    self.put(" ; a comment (with parens) \"and quotes\n");
                }
                2 => {
                    self.put("  ");
                }
                _ => {
                    self.put(" ");
                }
            }
        }
        if need && self.text.chars().last().map(|c| !c.is_whitespace()).unwrap_or(true) {
            self.put(" ");
        }
    }
}

const WORD_START: &[u8] = b"abcdefghijklmnopqrstuvwxyzABCDEFGHIJKLMNOPQRSTUVWXYZ_+*/<>=!?$%&";
const WORD_REST: &[u8] = b"abcdefghijklmnopqrstuvwxyzABCDEFGHIJKLMNOPQRSTUVWXYZ0123456789_+*/<>=!?$%&-";

/// position just after the last character of a token that starts at (line, col); tokens (strings) may span lines
fn end_of(line: usize, col: usize, text: &str) -> (usize, usize) {
    let (mut l, mut c) = (line, col);
    for ch in text.chars() {
        if ch == '\n' {
            l += 1;
            c = 1;
        } else {
            c += 1;
        }
    }
    (l, c)
}

fn gen_leaf_text(rng: &mut Rng) -> (String, &'static str) {
    match rng.below(12) {
        0..=2 => {
            let n = 1 + rng.below(8);
            let mut s = String::new();
            s.push(WORD_START[rng.below(WORD_START.len())] as char);
            for _ in 1..n {
                s.push(WORD_REST[rng.below(WORD_REST.len())] as char);
            }
            (s, "bareword")
        }
        3 | 4 => (format!("{}", rng.range(-100000, 100000)), "decimal"),
        5 => (format!("{}{}{}", if rng.chance(1, 2) { "-" } else { "" }, 1 + rng.next() % 9, rng.next()), "big_decimal"),
        6 | 7 => {
            let n = rng.below(9);
            let mut s = String::from("0x");
            for _ in 0..n {
                s.push(b"0123456789abcdefABCDEF"[rng.below(22)] as char);
            }
            (s, "hex")
        }
        8 | 9 => {
            let q = if rng.chance(1, 2) { '"' } else { '\'' };
            let n = rng.below(10);
            let mut s = String::new();
            s.push(q);
            for _ in 0..n {
                match rng.below(12) {
                    0 => {
                        s.push('\\');
                        s.push(q);
                    }
                    1 => {
                        s.push('\\');
                        s.push('\\');
                    }
                    2 => s.push(if q == '"' { '\'' } else { '"' }),
                    3 => s.push_str("( ;"),
                    4 => s.push('\n'), // strings may span lines: the closing quote can sit left of the opening one
                    _ => s.push(b"abc XYZ019.,:-"[rng.below(14)] as char),
                }
            }
            s.push(q);
            (s, "string")
        }
        10 => (format!("#{}", *rng.pick(&["a", "q", "c", "f", "r", "sha256", "+", "notanop"])), "hash_op"),
        _ => ("0".to_string(), "zero"),
    }
}

fn gen_tok(rng: &mut Rng, lay: &mut Layout, depth: usize, in_structured: bool) -> Tok {
    if depth == 0 || rng.chance(3, 5) {
        let (text, kind) = gen_leaf_text(rng);
        let (line, col) = lay.put(&text);
        return Tok::Leaf { text, kind, line, col };
    }
    // `#( … )` structured lists are exercised only by the separate bytewise==whole stratum
    let structured = false && !in_structured && rng.chance(1, 12);
    let open = lay.put(if structured { "#(" } else { "(" });
    let n = if structured { 2 + rng.below(3) } else { rng.below(6) };
    let mut items = vec![];
    let mut tail = None;
    for i in 0..n {
        lay.space(rng, i > 0);
        items.push(gen_tok(rng, lay, depth - 1, structured || in_structured));
    }
    if !structured && n > 0 && rng.chance(1, 6) {
        lay.space(rng, true);
        lay.put(".");
        lay.space(rng, true);
        tail = Some(Box::new(gen_tok(rng, lay, depth - 1, in_structured)));
    }
    lay.space(rng, false);
    let close = lay.put(")");
    Tok::List { items, tail, open, close, structured }
}

// ------------------------------------------------------------------------------------------------
// checking a parse result against the layout

fn le(a: (usize, usize), b: (usize, usize)) -> bool {
    a.0 < b.0 || (a.0 == b.0 && a.1 <= b.1)
}

struct Checker<'a> {
    out: &'a mut Out,
    text: &'a str,
    bad: u32,
}

impl<'a> Checker<'a> {
    fn fail(&mut self, kind: &str, sig: Option<&str>, detail: serde_json::Value) {
        self.bad += 1;
        if self.bad <= 3 {
            self.out.violation(json!({"kind": kind, "engine": "c15", "sig": sig, "text": trunc(self.text, 600), "detail": detail}));
        }
    }

    fn check(&mut self, tok: &Tok, s: &Rc<SExp>) {
        match tok {
            Tok::Leaf { text, kind, line, col } => {
                self.out.count("leaf_tokens_checked");
                self.out.seen("token_kinds", kind);
                if matches!(&**s, SExp::Cons(_, _, _)) {
                    self.fail("token_parsed_as_list", None, json!({"token": text}));
                    return;
                }
                let l = s.loc();
                let want_min0 = (*line, *col);
                let want_max0 = end_of(*line, *col, text);
                if *kind == "hash_op" && (l.file.as_str() != "*c15*" || src_location_min(&l) != want_min0 || src_location_max(&l) != want_max0) {
                    // listed finding: a #-prefixed operator takes the location of the primitive table
                    // (or, for an unknown name, a span that excludes the '#')
                    self.fail("hash_operator_token_location", Some("c15:hash-operator-token-location"), json!({"token": text, "loc": l.to_string()}));
                    return;
                }
                let want_min = (*line, *col);
                let want_max = end_of(*line, *col, text);
                if l.file.as_str() != "*c15*" || src_location_min(&l) != want_min || src_location_max(&l) != want_max {
                    self.fail("leaf_location_differs_from_token_span", None, json!({"token": text, "kind": kind, "expected": format!("({},{})-({},{})", want_min.0, want_min.1, want_max.0, want_max.1), "got": l.to_string()}));
                }
            }
            Tok::List { items, tail, open, close, structured } => {
                self.out.count("lists_checked");
                let close_end = (close.0, close.1 + 1);
                if items.is_empty() {
                    // "()" is one token
                    let l = s.loc();
                    if !matches!(&**s, SExp::Nil(_)) || src_location_min(&l) != *open || src_location_max(&l) != close_end {
                        // a comment or newline may separate the parens; then only containment is required
                        if !(l.file.as_str() == "*c15*" && le(*open, src_location_min(&l)) && le(src_location_max(&l), close_end)) {
                            self.fail("empty_list_location", None, json!({"got": l.to_string(), "open": format!("{:?}", open), "close": format!("{:?}", close)}));
                        }
                    }
                    return;
                }
                // walk the cons spine
                let mut cur: Rc<SExp> = s.clone();
                let hash_headed = contains_hash_op(tok);
                for (i, it) in items.iter().enumerate() {
                    let is_last_structured = *structured && i + 1 == items.len();
                    if is_last_structured {
                        // #(a b c) is (a b . c): the last item is the tail
                        self.check(it, &cur);
                        return;
                    }
                    match &*cur.clone() {
                        SExp::Cons(l, a, b) => {
                            if i == 0 {
                                // the list's own location lies between its parentheses
                                if l.file.as_str() != "*c15*" {
                                    let sig = if hash_headed { Some("c15:hash-operator-token-location") } else { None };
                                    self.fail("list_location_not_in_source_file", sig, json!({"loc": l.to_string()}));
                                } else if !(le(*open, src_location_min(l)) && le(src_location_max(l), close_end)) {
                                    self.fail("list_location_outside_its_parentheses", None, json!({"loc": l.to_string(), "open": format!("{:?}", open), "close": format!("{:?}", close)}));
                                }
                            }
                            self.check(it, a);
                            cur = b.clone();
                        }
                        other => {
                            self.fail("list_shorter_than_written", None, json!({"at_item": i, "got": other.to_string()}));
                            return;
                        }
                    }
                }
                match tail {
                    Some(t) => self.check(t, &cur),
                    None => {
                        if !cur.nilp() || matches!(&*cur, SExp::Cons(_, _, _)) {
                            self.fail("list_longer_than_written", None, json!({"rest": cur.to_string()}));
                        }
                    }
                }
            }
        }
    }
}

fn contains_hash_op(t: &Tok) -> bool {
    match t {
        Tok::Leaf { kind, .. } => *kind == "hash_op",
        Tok::List { items, tail, .. } => items.iter().any(contains_hash_op) || tail.as_ref().map(|x| contains_hash_op(x)).unwrap_or(false),
    }
}

fn same_with_locs(a: &Rc<SExp>, b: &Rc<SExp>) -> bool {
    if a.loc() != b.loc() {
        return false;
    }
    match (&**a, &**b) {
        (SExp::Cons(_, x1, y1), SExp::Cons(_, x2, y2)) => same_with_locs(x1, x2) && same_with_locs(y1, y2),
        (SExp::Cons(_, _, _), _) | (_, SExp::Cons(_, _, _)) => false,
        (x, y) => format!("{x:?}") == format!("{y:?}"),
    }
}

/// Is the location inside the text it names?  `files`: name -> text of the input and include files.
pub fn loc_in_bounds(loc: &Loc, files: &[(String, String)]) -> Result<(), String> {
    let mut texts: Vec<String> = files.iter().filter(|(n, _)| *n == loc.file).map(|(_, t)| t.clone()).collect();
    if loc.file == "*macros*" {
        // either flavour of the stock macros
        texts.push(STANDARD_MACROS.clone());
        texts.push(ADVANCED_MACROS.clone());
    }
    if let Some(d) = KNOWN_DIALECTS.get(&loc.file) {
        texts.push(d.content.clone());
    }
    if texts.is_empty() {
        if loc.file.starts_with('*') && loc.file.ends_with('*') {
            // a built-in pseudo-file without text of its own (*prims*, *sym*, …)
            return if loc.line >= 1 && loc.col >= 1 { Ok(()) } else { Err("zero line/col".into()) };
        }
        return Err(format!("location names unknown file {}", loc.file));
    }
    let mut last = Ok(());
    for text in texts {
        last = in_text(loc, &text);
        if last.is_ok() {
            return Ok(());
        }
    }
    last
}

/// One-past-the-end column of a line under the reader's own column rule (bytes; a tab advances to
/// the next multiple of eight).
fn line_extent(line: &[u8]) -> usize {
    let mut col = 1usize;
    for b in line {
        if *b == b'\t' {
            col = (col + 8) & !7;
        } else {
            col += 1;
        }
    }
    col
}

fn in_text(loc: &Loc, text: &str) -> Result<(), String> {
    let lines: Vec<&[u8]> = text.as_bytes().split(|b| *b == b'\n').collect();
    let check = |line: usize, col: usize| -> Result<(), String> {
        if line == 0 || col == 0 {
            return Err(format!("zero line/col {line}:{col}"));
        }
        if line > lines.len() + 1 {
            return Err(format!("line {line} beyond the {} lines of {}", lines.len(), loc.file));
        }
        // lines with bytes outside ASCII (the harness' own lossy rendering of non-UTF-8 input): how such characters advance
        // the column is not part of what is judged here, so every such byte widens the allowance
        let wide = if line <= lines.len() { lines[line - 1].iter().filter(|b| **b >= 0x80).count() } else { 0 };
        let ext = if line <= lines.len() { line_extent(lines[line - 1]) + 2 * wide } else { 1 };
        // a location may cover the line terminator: the terminator's own column and one past it
        // are allowed (exclusive end positions), nothing further
        if col > ext + 2 {
            return Err(format!("column {col} beyond line {line} (extent {ext}) of {}", loc.file));
        }
        Ok(())
    };
    check(loc.line, loc.col)?;
    if let Some((l, c)) = loc.until {
        check(l, c)?;
    }
    Ok(())
}

pub fn run(cfg: &Cfg) -> i32 {
    let mut out = Out::new("C15", cfg);
    let shard = cfg.shard as u64;
    let mut rng = Rng::derive(cfg.seed, 15, shard);
    let n = cfg.pick(6000, 80_000);
    for i in 0..n {
        let mut lay = Layout::new();
        let ntop = 1 + rng.below(3);
        let mut toks = vec![];
        lay.space(&mut rng, false);
        for k in 0..ntop {
            if k > 0 {
                lay.space(&mut rng, true);
            }
            toks.push(gen_tok(&mut rng, &mut lay, 4, false));
        }
        lay.space(&mut rng, false);
        let text = lay.text.clone();
        out.count("evaluations");
        let t2 = text.clone();
        let parsed = guard(move || parse_sexp(Srcloc::start("*c15*"), t2.bytes()));
        match parsed {
            Err(p) => out.violation(json!({"kind":"reader_panic","engine":"c15","text":trunc(&text,600),"panic":p})),
            Ok(Err((l, m))) => out.violation(json!({"kind":"well_formed_text_rejected","engine":"c15","text":trunc(&text,600),"loc":l.to_string(),"msg":m})),
            Ok(Ok(forms)) => {
                if forms.len() != toks.len() {
                    out.violation(json!({"kind":"wrong_number_of_forms","engine":"c15","text":trunc(&text,600),"expected":toks.len(),"got":forms.len()}));
                } else {
                    let mut ck = Checker { out: &mut out, text: &text, bad: 0 };
                    for (t, f) in toks.iter().zip(forms.iter()) {
                        ck.check(t, f);
                    }
                    let clean = ck.bad == 0;
                    // byte at a time == whole
                    let t3 = text.clone();
                    let partial = guard(move || {
                        let mut p = ParsePartialResult::new(Srcloc::start("*c15*"));
                        for b in t3.bytes() {
                            p.push(b)?;
                        }
                        p.finalize()
                    });
                    match partial {
                        Ok(Ok(pf)) => {
                            if pf.len() != forms.len() || !pf.iter().zip(forms.iter()).all(|(a, b)| same_with_locs(a, b)) {
                                out.violation(json!({"kind":"bytewise_parse_differs_from_whole_parse","engine":"c15","text":trunc(&text,600)}));
                            } else if clean {
                                out.nontrivial(fnv_s(&text));
                            }
                        }
                        Ok(Err((l, m))) => out.violation(json!({"kind":"bytewise_parse_rejects_what_whole_parse_accepts","engine":"c15","text":trunc(&text,600),"loc":l.to_string(),"msg":m})),
                        Err(p) => out.violation(json!({"kind":"reader_panic","engine":"c15","text":trunc(&text,600),"panic":p})),
                    }
                }
            }
        }
        if i < 2 && cfg.shard == 0 {
            out.sample(json!({"laid_out_text": text}));
        }
        // error clause: mutants of the same text; reader errors must lie within the text
        for _ in 0..3 {
            let mut m: Vec<u8> = text.clone().into_bytes();
            if m.is_empty() {
                break;
            }
            match rng.below(4) {
                0 => {
                    let k = rng.below(m.len());
                    m.truncate(k);
                }
                1 => {
                    let k = rng.below(m.len());
                    m.remove(k);
                }
                2 => {
                    let k = rng.below(m.len());
                    m.insert(k, *rng.pick(&[b'(', b')', b'"', b'\'', b'.', b'#', b'\\']));
                }
                _ => {
                    let k = rng.below(m.len());
                    m[k] = *rng.pick(&[b'(', b')', b'"', b'\'', b'.', b' ', b'\n']);
                }
            }
            let mt = String::from_utf8_lossy(&m).to_string();
            let mt2 = mt.clone();
            out.count("evaluations");
            out.count("mutants");
            match guard(move || parse_sexp(Srcloc::start("*c15*"), mt2.bytes())) {
                Err(p) => out.violation(json!({"kind":"reader_panic","engine":"c15","text":trunc(&mt,600),"panic":p})),
                Ok(Ok(_)) => out.count("mutant_accepted"),
                Ok(Err((l, msg))) => {
                    out.count("mutant_rejected");
                    let loc = crate::repo::loc_of(&l);
                    if let Err(why) = loc_in_bounds(&loc, &[("*c15*".to_string(), mt.clone())]) {
                        out.violation(json!({"kind":"reader_error_location_out_of_bounds","engine":"c15","text":trunc(&mt,600),"loc":l.to_string(),"msg":msg,"why":why}));
                    } else {
                        out.nontrivial(fnv_s(&mt) ^ 1);
                    }
                }
            }
        }
    }
    // structured-list stratum: texts with `#( … )`: no panic, bytewise parse == whole parse
    for _ in 0..cfg.pick(1500, 20_000) {
        let mut s = String::new();
        let n = 2 + rng.below(12);
        for _ in 0..n {
            s.push_str(*rng.pick(&["#(", "(", ")", ")", " ", "1", "abc", "\"x\"", " . ", "0x10", "\n", "#a", ";c\n"]));
            s.push(' ');
        }
        out.count("evaluations");
        out.count("structured_texts");
        let s1 = s.clone();
        let whole = guard(move || parse_sexp(Srcloc::start("*c15*"), s1.bytes()));
        let s2 = s.clone();
        let part = guard(move || {
            let mut p = ParsePartialResult::new(Srcloc::start("*c15*"));
            for b in s2.bytes() {
                p.push(b)?;
            }
            p.finalize()
        });
        match (whole, part) {
            (Err(p), _) | (_, Err(p)) => out.violation(json!({"kind":"reader_panic","engine":"c15","text":s,"panic":p})),
            (Ok(Ok(a)), Ok(Ok(b))) => {
                if a.len() != b.len() || !a.iter().zip(b.iter()).all(|(x, y)| same_with_locs(x, y)) {
                    out.violation(json!({"kind":"bytewise_parse_differs_from_whole_parse","engine":"c15","text":s}));
                }
            }
            (Ok(Err(e1)), Ok(Err(e2))) => {
                if e1 != e2 {
                    out.violation(json!({"kind":"bytewise_parse_error_differs","engine":"c15","text":s}));
                }
                let loc = crate::repo::loc_of(&e1.0);
                if let Err(why) = loc_in_bounds(&loc, &[("*c15*".to_string(), s.clone())]) {
                    out.violation(json!({"kind":"reader_error_location_out_of_bounds","engine":"c15","text":s,"loc":e1.0.to_string(),"why":why}));
                }
            }
            _ => out.violation(json!({"kind":"bytewise_and_whole_parse_disagree_on_acceptance","engine":"c15","text":s})),
        }
    }
    let bad = out.get("violations");
    out.finish(cfg);
    if bad > 0 { 1 } else { 0 }
}
