// C04 — the CLVM-level optimiser preserves the meaning of any CLVM it is given.
use std::rc::Rc;

use clvmr::allocator::Allocator;
use serde_json::json;

use chialisp::classic::clvm_tools::stages::stage_0::{DefaultProgramRunner, TRunProgram};
use chialisp::classic::clvm_tools::stages::stage_2::optimize::optimize_sexp;
use chialisp::compiler::optimize::run_optimizer;

use crate::clvmgen::*;
use crate::common::*;
use crate::repo::*;

fn opt_classic(r: &V) -> Result<V, String> {
    let r = r.clone();
    match guard(move || {
        let mut a = Allocator::new();
        let n = r.to_node(&mut a);
        let runner: Rc<dyn TRunProgram> = Rc::new(DefaultProgramRunner::new());
        optimize_sexp(&mut a, n, runner)
            .map(|o| V::from_node(&a, o))
            .map_err(|e| format!("{e}"))
    }) {
        Ok(x) => x,
        Err(p) => Err(format!("PANIC {p}")),
    }
}

fn opt_modern(r: &V) -> Result<V, String> {
    let r = r.clone();
    match guard(move || {
        let sx = natural_sexp(&r)?;
        let mut a = Allocator::new();
        let runner: Rc<dyn TRunProgram> = Rc::new(DefaultProgramRunner::new());
        let o = run_optimizer(&mut a, runner, sx).map_err(|e| format!("{}: {}", e.0, e.1))?;
        sexp_to_v(o)
    }) {
        Ok(x) => x,
        Err(p) => Err(format!("PANIC {p}")),
    }
}

fn judge(out: &mut Out, stratum: &str, r: &V, envs: &[V]) {
    // premise: R returns a value in at least one of the environments
    let mut vals: Vec<(usize, V)> = vec![];
    for (k, e) in envs.iter().enumerate() {
        out.count("evaluations");
        match consensus_run_cap(r, e, 200_000_000) {
            Outcome::Val(v) => vals.push((k, v)),
            Outcome::CostCap => out.inconclusive("costcap", json!({"program": r.show()})),
            Outcome::Fail(_) => out.count("premise_false"),
        }
    }
    out.count(&format!("stratum.{stratum}"));
    if vals.is_empty() {
        return;
    }
    out.count("programs_with_value");
    for (route, res) in [("optimize_sexp", opt_classic(r)), ("run_optimizer", opt_modern(r))] {
        match res {
            Err(m) => {
                out.violation(json!({"kind":"optimiser_rejects_value_returning_program","engine":"c04","sig":sig_for_env(r, Some(&envs[vals[0].0])),"route":route,"stratum":stratum,
                    "program_hex":r.hex(),"program":trunc(&r.show(),400),"env":envs[vals[0].0].show(),"env_hex":envs[vals[0].0].hex(),"value":vals[0].1.show(),"error":trunc(&m,300)}));
            }
            Ok(r1) => {
                if &r1 != r {
                    out.count(&format!("rewritten.{route}"));
                    out.nontrivial(fnv_s(&r.hex()));
                    if out.samples.len() < out.sample_cap && r.nodes() > 8 {
                        out.sample(json!({"stratum":stratum,"route":route,"program":trunc(&r.show(),200),"optimised":trunc(&r1.show(),200),"env":trunc(&envs[vals[0].0].show(),100),"value":trunc(&vals[0].1.show(),80)}));
                    }
                }
                for (k, v) in vals.iter() {
                    let got = consensus_run_cap(&r1, &envs[*k], 2_000_000_000);
                    match got {
                        Outcome::Val(ref g) if g == v => out.count("agree"),
                        Outcome::CostCap => out.inconclusive("costcap_after", json!({"program": r.show()})),
                        other => {
                            out.violation(json!({"kind":"optimiser_changed_meaning","engine":"c04","sig":sig_for_env(r, Some(&envs[*k])),"route":route,"stratum":stratum,
                                "program_hex":r.hex(),"program":trunc(&r.show(),400),"optimised":trunc(&r1.show(),400),
                                "env_hex":envs[*k].hex(),"env":trunc(&envs[*k].show(),200),"expected":v.show(),"got":other.show()}));
                        }
                    }
                }
            }
        }
    }
}

/// Evaluated positions only ((q . data) skipped): an operator position that holds a list, i.e. the
/// legacy ((X) . args) "apply X to unevaluated args" syntax.
fn has_list_head(v: &V) -> bool {
    match v {
        V::A(_) => false,
        V::P(a, b) => {
            if a.is_pair() {
                return true;
            }
            if let V::A(h) = &**a {
                if h.as_slice() == [1u8] {
                    return false;
                }
            }
            let mut cur: &V = b;
            loop {
                match cur {
                    V::P(x, y) => {
                        if has_list_head(x) {
                            return true;
                        }
                        cur = y;
                    }
                    V::A(_) => return false,
                }
            }
        }
    }
}

fn sig_for(r: &V) -> Option<String> {
    sig_for_env(r, None)
}

/// also when the code that uses the legacy syntax is only built at run time: (a X E) where X evaluates (under the
/// environment of the failing run) to a program with a list in an operator position
fn sig_for_env(r: &V, env: Option<&V>) -> Option<String> {
    if has_list_head(r) {
        return Some("optimiser:legacy-head-list-syntax".to_string());
    }
    if let (Some(env), Some(l)) = (env, r.proper_list()) {
        if l.len() == 3 && l[0] == V::A(vec![2]) {
            if let Outcome::Val(code) = consensus_run_cap(&l[1], env, 100_000_000) {
                if has_list_head(&code) {
                    return Some("optimiser:legacy-head-list-syntax".to_string());
                }
            }
        }
    }
    None
}

fn opv(o: u8, args: &[V]) -> V {
    V::cons(V::A(vec![o]), V::list(args))
}

pub fn run(cfg: &Cfg) -> i32 {
    if let Some(p) = &cfg.replay {
        return replay(p);
    }
    let mut out = Out::new("C04", cfg);
    let envs = standard_envs();
    let alphabet = reduced_alphabet();
    let shard = cfg.shard as u64;
    let ns = cfg.nshards as u64;

    // A. exhaustive raw trees
    let max_leaves = cfg.pick(4, 5);
    let mut raw_total = 0u64;
    for leaves in 1..=max_leaves {
        let shapes = catalan_shapes(leaves);
        let total = raw_count(leaves, alphabet.len());
        raw_total += total;
        let mut idx = shard;
        while idx < total {
            let prog = raw_tree(leaves, &alphabet, &shapes, idx);
            judge(&mut out, "raw_exhaustive", &prog, &envs[..3]);
            idx += ns;
        }
    }
    out.extra.insert("raw_trees_enumerated_total".into(), json!(raw_total));
    out.extra.insert("raw_max_leaves".into(), json!(max_leaves));

    // B. grammar-directed exhaustive expressions
    let gmax = cfg.pick(4, 5);
    let g = Gram::build(gmax);
    let mut gtotal = 0u64;
    for n in 1..=gmax {
        for (i, prog) in g.by_size[n].iter().enumerate() {
            gtotal += 1;
            if (i as u64) % ns != shard {
                continue;
            }
            judge(&mut out, "grammar_exhaustive", prog, &envs);
        }
    }
    out.extra.insert("grammar_exprs_enumerated_total".into(), json!(gtotal));
    out.extra.insert("grammar_max_size".into(), json!(gmax));

    // C. path families: f/r chains of length 0..80 over path atoms of 1..9 bytes, with an
    //    environment deep enough for the composed position
    let mut rng = Rng::derive(cfg.seed, 4, shard);
    let nchains = cfg.pick(6000, 60000);
    for _ in 0..nchains {
        let p = path_family(&mut rng);
        let base = match path_bits(&p) {
            Some(b) => b,
            None => vec![],
        };
        let n = match rng.below(4) {
            0 => rng.below(4),
            1 => rng.below(16),
            _ => rng.below(81),
        };
        let mut full = base.clone();
        let mut e = V::A(p.clone());
        for _ in 0..n {
            let rest = rng.chance(1, 2);
            full.push(rest);
            e = opv(if rest { 6 } else { 5 }, &[e]);
        }
        // optionally wrap: (a (q . E) 1), (a (q . E) (c 2 3)) [same env], (c (f X) (r X))
        let mut env_bits = full.clone();
        env_bits.push(false); // one more level so the selected node can itself be a pair
        let prog = match rng.below(5) {
            0 => opv(2, &[quote(e), V::A(vec![1])]),
            1 => opv(2, &[quote(e), opv(4, &[V::A(vec![2]), V::A(vec![3])])]),
            2 => opv(4, &[opv(5, &[e.clone()]), opv(6, &[e])]),
            _ => e,
        };
        let env = env_for_paths(&[bits_to_path(&env_bits)], 0);
        out.seen("chain_lengths", &format!("{:02}", n));
        out.seen("path_bytes", &format!("{}", p.len()));
        judge(&mut out, "path_chains", &prog, &[env, complete_env(3)]);
    }

    // D. random larger trees over the full operator set
    let ops = full_ops();
    let nrand = cfg.pick(30_000, 300_000);
    for i in 0..nrand {
        let mut paths = vec![];
        let depth = 2 + rng.below(4);
        let prog = rand_expr(&mut rng, depth, &ops, if i % 4 == 0 { 8 } else { 0 }, &mut paths);
        let e1 = env_for_paths(&paths, 1);
        let mut all = vec![];
        atoms_of(&prog, &mut all);
        let e2 = env_for_paths(&all, 0);
        judge(&mut out, "random", &prog, &[e1, e2, envs[rng.below(envs.len())].clone()]);
    }
    if cfg.shard == 0 {
        // pinned witness of the listed known finding
        let w = V::list(&[V::list(&[V::A(vec![16])]), V::A(vec![8])]);
        judge(&mut out, "pinned_known", &w, &[V::nil()]);
    }
    let bad = out.get("violations");
    out.finish(cfg);
    if bad > 0 {
        1
    } else {
        0
    }
}

fn replay(path: &str) -> i32 {
    let j: serde_json::Value = serde_json::from_str(&std::fs::read_to_string(path).expect("read replay")).expect("json");
    let v = j.get("violation").unwrap_or(&j);
    let prog = V::from_ser(&hex::decode(v["program_hex"].as_str().unwrap()).unwrap()).unwrap();
    let env = V::from_ser(&hex::decode(v["env_hex"].as_str().unwrap()).unwrap()).unwrap();
    println!("program   : {}", prog.show());
    println!("env       : {}", trunc(&env.show(), 300));
    let want = consensus_run(&prog, &env);
    println!("consensus : {}", want.show());
    let mut bad = false;
    for (route, r) in [("optimize_sexp", opt_classic(&prog)), ("run_optimizer", opt_modern(&prog))] {
        match r {
            Ok(o) => {
                let got = consensus_run(&o, &env);
                println!("{route}: {} => {}", trunc(&o.show(), 300), got.show());
                if want.is_val() && got != want {
                    bad = true;
                }
            }
            Err(m) => {
                println!("{route}: ERROR {m}");
                if want.is_val() {
                    bad = true;
                }
            }
        }
    }
    if bad {
        println!("VIOLATION property=C04 replay={path}");
        1
    } else {
        0
    }
}
