// C20 — operator tables agree with each other and with the evaluator (finite, exhaustive).
use std::collections::BTreeMap;

use serde_json::json;

use chialisp::classic::clvm::{keyword_from_atom, keyword_to_atom};
use chialisp::compiler::prims::prims;

use crate::common::*;
use crate::repo::*;

/// The CLVM specification's operator numbering (trusted reference, written down independently of
/// the repository's tables).
pub fn spec_table() -> Vec<(&'static str, Vec<u8>, usize)> {
    let one = |b: u8| vec![b];
    vec![
        ("q", one(0x01), 0),
        ("a", one(0x02), 0),
        ("i", one(0x03), 0),
        ("c", one(0x04), 0),
        ("f", one(0x05), 0),
        ("r", one(0x06), 0),
        ("l", one(0x07), 0),
        ("x", one(0x08), 0),
        ("=", one(0x09), 0),
        (">s", one(0x0a), 0),
        ("sha256", one(0x0b), 0),
        ("substr", one(0x0c), 0),
        ("strlen", one(0x0d), 0),
        ("concat", one(0x0e), 0),
        ("+", one(0x10), 0),
        ("-", one(0x11), 0),
        ("*", one(0x12), 0),
        ("/", one(0x13), 0),
        ("divmod", one(0x14), 0),
        (">", one(0x15), 0),
        ("ash", one(0x16), 0),
        ("lsh", one(0x17), 0),
        ("logand", one(0x18), 0),
        ("logior", one(0x19), 0),
        ("logxor", one(0x1a), 0),
        ("lognot", one(0x1b), 0),
        ("point_add", one(0x1d), 0),
        ("pubkey_for_exp", one(0x1e), 0),
        ("not", one(0x20), 0),
        ("any", one(0x21), 0),
        ("all", one(0x22), 0),
        ("softfork", one(0x24), 0),
        ("coinid", one(0x30), 1),
        ("g1_subtract", one(0x31), 1),
        ("g1_multiply", one(0x32), 1),
        ("g1_negate", one(0x33), 1),
        ("g2_add", one(0x34), 1),
        ("g2_subtract", one(0x35), 1),
        ("g2_multiply", one(0x36), 1),
        ("g2_negate", one(0x37), 1),
        ("g1_map", one(0x38), 1),
        ("g2_map", one(0x39), 1),
        ("bls_pairing_identity", one(0x3a), 1),
        ("bls_verify", one(0x3b), 1),
        ("modpow", one(0x3c), 1),
        ("%", one(0x3d), 1),
        ("keccak256", one(0x3e), 2),
        ("secp256k1_verify", vec![0x13, 0xd6, 0x1f, 0x00], 1),
        ("secp256r1_verify", vec![0x1c, 0x3a, 0x8f, 0x00], 1),
    ]
}

fn val_of(o: Outcome) -> V {
    match o {
        Outcome::Val(v) => v,
        other => panic!("harness: sample vector construction failed: {other:?}"),
    }
}

/// Sample argument lists per operator (already-evaluated argument values).
pub fn sample_args(name: &str) -> Vec<Vec<V>> {
    let i = V::int;
    let s = |x: &str| V::atom(x.as_bytes());
    let g1 = || val_of(consensus_apply_op(&[0x1e], &[i(1)]));
    let g1b = || val_of(consensus_apply_op(&[0x1e], &[i(7)]));
    let g2 = || val_of(consensus_apply_op(&[0x39], &[s("abc")]));
    let g2b = || val_of(consensus_apply_op(&[0x39], &[s("xyz")]));
    let h32 = |c: u8| V::atom(&[c; 32]);
    match name {
        "i" => vec![vec![i(1), i(10), i(20)], vec![V::nil(), i(10), i(20)]],
        "c" => vec![vec![i(1), i(2)], vec![V::list(&[i(1)]), V::nil()]],
        "f" | "r" => vec![vec![V::list(&[i(5), i(6), i(7)])], vec![V::cons(i(1), i(2))]],
        "l" => vec![vec![i(5)], vec![V::list(&[i(5)])]],
        "x" => vec![vec![i(5)], vec![]],
        "=" => vec![vec![i(5), i(5)], vec![i(5), i(6)]],
        ">s" => vec![vec![s("b"), s("a")], vec![s("a"), s("b")]],
        "sha256" | "keccak256" | "concat" => vec![vec![s("hello"), s("world")], vec![], vec![s("x")]],
        "substr" => vec![vec![s("hello world"), i(2), i(7)], vec![s("hello"), i(1)]],
        "strlen" => vec![vec![s("hello")], vec![V::nil()]],
        "+" | "-" | "*" | "logand" | "logior" | "logxor" => {
            vec![vec![i(300), i(7), i(-5)], vec![i(12), i(10)], vec![]]
        }
        "/" | "divmod" | "%" => vec![vec![i(17), i(5)], vec![i(1000), i(7)]],
        ">" => vec![vec![i(7), i(5)], vec![i(-7), i(5)]],
        "ash" | "lsh" => vec![vec![i(5), i(3)], vec![i(-200), i(-2)]],
        "lognot" | "not" => vec![vec![i(5)], vec![V::nil()]],
        "any" | "all" => vec![vec![i(1), V::nil()], vec![i(1), i(2)], vec![]],
        "point_add" => vec![vec![g1(), g1b()], vec![]],
        "pubkey_for_exp" => vec![vec![i(1)], vec![i(123456789)]],
        "coinid" => vec![vec![h32(1), h32(2), i(1000)]],
        "g1_subtract" => vec![vec![g1(), g1b()]],
        "g1_multiply" => vec![vec![g1(), i(3)]],
        "g1_negate" => vec![vec![g1()]],
        "g2_add" | "g2_subtract" => vec![vec![g2(), g2b()]],
        "g2_multiply" => vec![vec![g2(), i(3)]],
        "g2_negate" => vec![vec![g2()]],
        "g1_map" | "g2_map" => vec![vec![s("abc")], vec![s("abc"), s("dst")]],
        "bls_pairing_identity" => vec![vec![], vec![g1(), g2()]],
        "bls_verify" => vec![vec![g2()], vec![g2(), g1(), s("m")]],
        "modpow" => vec![vec![i(3), i(200), i(1000007)]],
        "secp256k1_verify" | "secp256r1_verify" => vec![vec![h32(1), h32(2), h32(3)]],
        _ => vec![],
    }
}

pub const DIALECT_SIGILS: [(&str, &str); 6] = [
    ("cl21", "*standard-cl-21*"),
    ("strict-cl21", "*strict-cl-21*"),
    ("cl22", "*standard-cl-22*"),
    ("cl23", "*standard-cl-23*"),
    ("cl23.1", "*standard-cl-23.1*"),
    ("cl24", "*standard-cl-24*"),
];

pub fn run(cfg: &Cfg) -> i32 {
    let mut out = Out::new("C20", cfg);
    out.sample_cap = 8;
    let spec = spec_table();
    let spec_map: BTreeMap<String, Vec<u8>> =
        spec.iter().map(|(n, o, _)| (n.to_string(), o.clone())).collect();

    // 1. classic tables: inverse, monotone, equal to spec
    let mut prev_to: Option<BTreeMap<String, Vec<u8>>> = None;
    for v in 0..=2usize {
        let to: BTreeMap<String, Vec<u8>> = keyword_to_atom(v).iter().map(|(k, x)| (k.clone(), x.clone())).collect();
        let from: BTreeMap<Vec<u8>, String> = keyword_from_atom(v).iter().map(|(k, x)| (k.clone(), x.clone())).collect();
        for (n, o) in to.iter() {
            out.count("evaluations");
            out.count("cells.table_inverse");
            if from.get(o) != Some(n) {
                out.violation(json!({"kind":"to_from_not_inverse","version":v,"name":n,"opcode":hex::encode(o),"from_gives":from.get(o)}));
            }
            match spec_map.get(n) {
                Some(so) if so == o => {}
                other => out.violation(json!({"kind":"classic_table_vs_spec","version":v,"name":n,"opcode":hex::encode(o),"spec":other.map(hex::encode)})),
            }
        }
        for (o, n) in from.iter() {
            out.count("evaluations");
            out.count("cells.table_inverse");
            if to.get(n) != Some(o) {
                out.violation(json!({"kind":"from_to_not_inverse","version":v,"name":n,"opcode":hex::encode(o)}));
            }
        }
        // the version must know exactly the spec's names of version <= v
        for (n, o, sv) in spec.iter() {
            out.count("evaluations");
            let expect = *sv <= v;
            let has = to.get(*n) == Some(o);
            if expect != has {
                out.violation(json!({"kind":"version_membership","version":v,"name":n,"expected_present":expect,"present":has}));
            }
        }
        if let Some(p) = &prev_to {
            for (n, o) in p.iter() {
                out.count("evaluations");
                out.count("cells.monotone");
                if to.get(n) != Some(o) {
                    out.violation(json!({"kind":"versions_not_monotone","version":v,"name":n}));
                }
            }
        }
        prev_to = Some(to);
    }

    // 2. modern primitive list
    let mut prim_names: BTreeMap<String, Vec<u8>> = BTreeMap::new();
    for (n, sx) in prims() {
        out.count("evaluations");
        out.count("cells.prims");
        let name = String::from_utf8_lossy(&n).to_string();
        let opv = match sexp_to_v(std::rc::Rc::new(sx)) {
            Ok(V::A(b)) => b,
            other => {
                out.violation(json!({"kind":"prim_not_atom","name":name,"got":format!("{other:?}")}));
                continue;
            }
        };
        if prim_names.insert(name.clone(), opv.clone()).is_some() {
            out.violation(json!({"kind":"prim_duplicate_name","name":name}));
        }
        match spec_map.get(&name) {
            Some(so) if *so == opv => {}
            other => out.violation(json!({"kind":"prims_vs_spec","name":name,"opcode":hex::encode(&opv),"spec":other.map(hex::encode)})),
        }
    }
    for (n, _) in spec_map.iter() {
        out.count("evaluations");
        if !prim_names.contains_key(n) {
            out.violation(json!({"kind":"name_unknown_to_modern_compiler","name":n}));
        }
    }

    // 3. every opcode: disassembles to the name iff the version's table has it, and re-assembles
    let mut opcodes: Vec<Vec<u8>> = (0u16..=255).map(|b| vec![b as u8]).collect();
    opcodes.push(vec![0x13, 0xd6, 0x1f, 0x00]);
    opcodes.push(vec![0x1c, 0x3a, 0x8f, 0x00]);
    for v in 0..=2usize {
        for oc in opcodes.iter() {
            if oc == &vec![0u8] {
                // a zero byte atom in head position; still must round trip
            }
            out.count("evaluations");
            out.count("cells.disassemble_opcode");
            let val = V::list(&[V::A(oc.clone()), V::int(77), V::int(78)]);
            let expect_name: Option<&str> = spec
                .iter()
                .find(|(_, o, sv)| o == oc && *sv <= v)
                .map(|(n, _, _)| *n);
            match classic_disassemble(&val, Some(v)) {
                Ok(text) => {
                    let head = text.trim_start_matches('(').split(' ').next().unwrap_or("").to_string();
                    let named = spec.iter().any(|(n, _, _)| *n == head);
                    // The disassembler only consults its table for atoms of at most two bytes (longer
                    // opcodes print as hex, which denotes the same opcode); the property forbids a
                    // *wrong* name, so for longer opcodes only "no invented name" is demanded.
                    let expect_name = if oc.len() > 2 && !named { None } else { expect_name };
                    match expect_name {
                        Some(n) => {
                            if head != n {
                                out.violation(json!({"kind":"disassemble_wrong_name","version":v,"opcode":hex::encode(oc),"text":text,"expected":n}));
                            }
                        }
                        None => {
                            if named {
                                out.violation(json!({"kind":"disassemble_invented_name","version":v,"opcode":hex::encode(oc),"text":text}));
                            }
                        }
                    }
                    match classic_assemble(&text) {
                        Ok(back) if back == val => {}
                        other => out.violation(json!({"kind":"opcode_text_not_reassembled","version":v,"opcode":hex::encode(oc),"text":text,"got":format!("{other:?}")})),
                    }
                }
                Err(p) => out.violation(json!({"kind":"disassemble_panic","opcode":hex::encode(oc),"panic":p})),
            }
        }
    }

    // 4. one-operator programs through every route
    for (name, opcode, _) in spec.iter() {
        if *name == "q" || *name == "a" || *name == "softfork" {
            continue;
        }
        for args in sample_args(name) {
            let expected = consensus_apply_op(opcode, &args);
            if let Outcome::Fail(m) = &expected {
                if m.contains("unimplemented") {
                    out.violation(json!({"kind":"consensus_evaluator_lacks_operator","name":name,"opcode":hex::encode(opcode)}));
                    continue;
                }
            }
            let n = args.len();
            let params: Vec<String> = (0..n).map(|k| format!("A{k}")).collect();
            let env = V::list(&args);
            let body = format!("({} {})", name, params.join(" "));
            let mut routes: Vec<(String, Result<V, String>)> = vec![];
            // classic compiler
            let classic_src = format!("(mod ({}) {})", params.join(" "), body);
            routes.push((
                "classic".to_string(),
                compile_lib(&classic_src, "*c20*", &[], true, false).map(|c| c.prog).map_err(|e| e.msg()),
            ));
            for (dn, sig) in DIALECT_SIGILS.iter() {
                let src = format!("(mod ({}) (include {}) {})", params.join(" "), sig, body);
                routes.push((
                    dn.to_string(),
                    compile_cli_modern(&src, None, &[], false).map(|c| c.prog).map_err(|e| e.msg()),
                ));
            }
            // assembler route: (name (q . a0) (q . a1) …) evaluated in nil env, applied as a program on env
            let asm_text = format!(
                "({} {})",
                name,
                (0..n).map(|k| path_text(k)).collect::<Vec<_>>().join(" ")
            );
            routes.push(("opc".to_string(), classic_assemble(&asm_text)));

            for (route, built) in routes {
                out.count("evaluations");
                out.count("cells.op_route");
                out.seen("routes", &route);
                let prog = match built {
                    Ok(p) => p,
                    Err(m) => {
                        out.violation(json!({"kind":"one_operator_program_does_not_build","name":name,"route":route,"error":trunc(&m,300)}));
                        continue;
                    }
                };
                let got = consensus_run(&prog, &env);
                let step = match (natural_sexp(&prog), natural_sexp(&env)) {
                    (Ok(p), Ok(e)) => stepping_eval(p, e, 1_000_000),
                    (a, b) => StepOutcome::Fail(format!("convert {a:?} {b:?}")),
                };
                let agree_consensus = match (&expected, &got) {
                    (Outcome::Val(a), Outcome::Val(b)) => a == b,
                    (Outcome::Fail(_), Outcome::Fail(m)) => !m.contains("unimplemented"),
                    _ => false,
                };
                let agree_step = match (&expected, &step) {
                    (Outcome::Val(a), StepOutcome::Val(b)) => a == b,
                    (Outcome::Fail(_), StepOutcome::Fail(m)) => !m.contains("unimplemented"),
                    _ => false,
                };
                out.nontrivial(fnv_s(&format!("{name}/{route}/{}", env.hex())));
                if agree_consensus && !agree_step {
                    // signature: the operator whose meaning the stepping evaluator gets wrong
                    out.violation(json!({"kind":"stepping_evaluator_disagrees","sig":format!("stepping-evaluator:operator:{name}"),"name":name,"route":route,"args":env.show(),
                        "program":prog.show(),"expected":expected.show(),"consensus_run":got.show(),"stepping_run":format!("{step:?}")}));
                } else if !agree_consensus || !agree_step {
                    out.violation(json!({"kind":"operator_route_disagrees","name":name,"route":route,"args":env.show(),
                        "program":prog.show(),"expected":expected.show(),"consensus_run":got.show(),"stepping_run":format!("{step:?}")}));
                } else if *name == "sha256" || *name == "%" {
                    out.sample(json!({"name":name,"route":route,"program":prog.show(),"args":env.show(),"result":got.show()}));
                }
            }
        }
    }
    out.extra.insert("names".to_string(), json!(spec.len()));
    out.extra.insert("opcodes_checked".to_string(), json!(opcodes.len()));
    let bad = out.get("violations");
    out.finish(cfg);
    if bad > 0 { 1 } else { 0 }
}

fn path_text(k: usize) -> String {
    // path of the k-th list element: f applied after k rests; numeric path = (2^(k+1)) + (2^k - 1) … use explicit arithmetic
    // element k of a proper list has path: bits k ones (rests) then a zero (first), under a leading 1.
    let mut p: u128 = 1; // leading marker
    p = (p << 1) | 0; // first
    for _ in 0..k {
        p = (p << 1) | 1; // rest (applied first => least significant)
    }
    format!("{p}")
}
