// C07 — rich <-> CLVM conversion is lossless; the three tree hashes agree; rich equality/hash
// coincide with byte identity of the encodings (fixed integer mode).
use std::collections::hash_map::DefaultHasher;
use std::hash::{Hash, Hasher};
use std::rc::Rc;

use clvmr::allocator::Allocator;
use serde_json::json;

use chialisp::classic::clvm_tools::sha256tree::sha256tree as classic_sha256tree;
use chialisp::compiler::clvm::{convert_from_clvm_rs, convert_to_clvm_rs, sha256tree as modern_sha256tree, NewStyleIntConversion};
use chialisp::compiler::sexp::{parse_sexp, SExp};
use chialisp::compiler::srcloc::Srcloc;

use crate::clvmgen::*;
use crate::common::*;
use crate::repo::*;

fn consensus_treehash(v: &V) -> Vec<u8> {
    let b = v.ser();
    let mut c = std::io::Cursor::new(&b[..]);
    clvmr::serde::tree_hash_from_stream(&mut c).expect("tree_hash_from_stream").to_vec()
}

fn check_value(out: &mut Out, stratum: &str, x: &V, nontrivial: bool) {
    out.count("evaluations");
    out.count(&format!("stratum.{stratum}"));
    let want_hash = treehash(x);
    let cons_hash = consensus_treehash(x);
    if want_hash != cons_hash {
        out.violation(json!({"kind":"harness_hash_vs_clvmr","value":x.hex()}));
    }
    for mode in [true, false] {
        let xx = x.clone();
        let r = guard(move || {
            let _m = NewStyleIntConversion::new(mode);
            let mut a = Allocator::new();
            let n = xx.to_node(&mut a);
            let classic_h = classic_sha256tree(&mut a, n).data().clone();
            let rich = convert_from_clvm_rs(&mut a, hloc(), n).map_err(|e| format!("from: {e}"))?;
            let modern_h = modern_sha256tree(rich.clone());
            let back = convert_to_clvm_rs(&mut a, rich.clone()).map_err(|e| format!("to: {e}"))?;
            Ok::<_, String>((V::from_node(&a, back), classic_h, modern_h, format!("{rich:?}")))
        });
        match r {
            Err(p) => out.violation(json!({"kind":"panic_in_conversion","value_hex":x.hex(),"int_mode_new":mode,"panic":p})),
            Ok(Err(m)) => out.violation(json!({"kind":"conversion_error","value_hex":x.hex(),"value":trunc(&x.show(),200),"int_mode_new":mode,"error":m})),
            Ok(Ok((back, ch, mh, dbg))) => {
                if &back != x {
                    out.violation(json!({"kind":"roundtrip_changed_value","value_hex":x.hex(),"value":trunc(&x.show(),200),"int_mode_new":mode,"back":trunc(&back.show(),200),"rich":trunc(&dbg,300)}));
                }
                if ch != cons_hash {
                    out.violation(json!({"kind":"classic_treehash_differs","value_hex":x.hex(),"int_mode_new":mode}));
                }
                if mh != cons_hash {
                    out.violation(json!({"kind":"modern_treehash_differs","value_hex":x.hex(),"value":trunc(&x.show(),200),"int_mode_new":mode,"rich":trunc(&dbg,300)}));
                }
            }
        }
    }
    if nontrivial {
        out.nontrivial(fnv(&x.ser()));
    }
}

fn std_hash(s: &SExp) -> u64 {
    let mut h = DefaultHasher::new();
    s.hash(&mut h);
    h.finish()
}

fn ident_like(b: &[u8]) -> bool {
    !b.is_empty()
        && b.iter().all(|c| c.is_ascii_alphanumeric() || b"_-+*/<>=!?$%&".contains(c))
        && !b[0].is_ascii_digit()
        && !(b[0] == b'-' && (b.len() == 1 || b[1].is_ascii_digit()))
        && !(b.len() >= 2 && b[0] == b'0' && b[1] == b'x')
        && b[0] != b'#'
}

/// All the rich values the tools give for the byte string `b` when reading text that denotes it or
/// converting it from CLVM (fixed mode).
fn rich_forms(b: &[u8]) -> Vec<(String, Rc<SExp>)> {
    let mut out: Vec<(String, Rc<SExp>)> = vec![];
    let v = V::A(b.to_vec());
    if let Ok(r) = natural_sexp(&v) {
        out.push(("converted".into(), r));
    }
    let mut texts: Vec<(String, String)> = vec![];
    if b.is_empty() {
        texts.push(("()".into(), "()".into()));
        texts.push(("0".into(), "0".into()));
        texts.push(("0x".into(), "0x".into()));
        texts.push(("\"\"".into(), "\"\"".into()));
    } else {
        texts.push(("hex".into(), format!("0x{}", hex::encode(b))));
        let n = num_bigint::BigInt::from_signed_bytes_be(b);
        if n.to_signed_bytes_be() == b && !(b.len() == 1 && b[0] == 0) {
            texts.push(("decimal".into(), n.to_string()));
        }
        if b.iter().all(|c| *c >= 32 && *c <= 126 && *c != b'"' && *c != b'\\' && *c != b'\'') {
            texts.push(("dquote".into(), format!("\"{}\"", String::from_utf8_lossy(b))));
            texts.push(("squote".into(), format!("'{}'", String::from_utf8_lossy(b))));
        }
        if ident_like(b) {
            texts.push(("bareword".into(), String::from_utf8_lossy(b).to_string()));
        }
    }
    for (k, t) in texts {
        if let Ok(p) = parse_sexp(Srcloc::start("*c07*"), t.bytes()) {
            if p.len() == 1 {
                out.push((format!("read:{k}:{t}"), p[0].clone()));
            }
        }
    }
    out
}

fn enc(s: &Rc<SExp>) -> Option<Vec<u8>> {
    sexp_to_v(s.clone()).ok().map(|v| v.ser())
}

fn check_pool(out: &mut Out, pool: &[Vec<u8>]) {
    let _m = NewStyleIntConversion::new(true);
    let mut forms: Vec<(String, Rc<SExp>, Vec<u8>)> = vec![];
    for b in pool {
        for (k, r) in rich_forms(b) {
            if let Some(e) = enc(&r) {
                forms.push((k, r, e));
            }
        }
    }
    // also put each form inside a small list so Cons equality is exercised
    let n = forms.len();
    for i in 0..n {
        for j in 0..n {
            out.count("evaluations");
            out.count("stratum.equality_pairs");
            let (ka, a, ea) = &forms[i];
            let (kb, b, eb) = &forms[j];
            let eq = guard(|| a == b);
            let same = ea == eb;
            match eq {
                Err(p) => out.violation(json!({"kind":"panic_in_equality","a":ka,"b":kb,"panic":p})),
                Ok(eq) => {
                    if eq != same {
                        out.violation(json!({"kind":"equality_vs_bytes","a":ka,"b":kb,"a_dbg":trunc(&format!("{a:?}"),200),"b_dbg":trunc(&format!("{b:?}"),200),"equal":eq,"bytes_identical":same,"a_bytes":hex::encode(ea),"b_bytes":hex::encode(eb)}));
                    } else if eq {
                        if std_hash(a) != std_hash(b) {
                            out.violation(json!({"kind":"equal_values_hash_differently","a":ka,"b":kb}));
                        }
                        if i != j {
                            out.nontrivial(fnv_s(&format!("{ka}|{kb}")));
                        }
                    }
                    // the same two values as list elements
                    let la = Rc::new(SExp::Cons(hloc(), a.clone(), Rc::new(SExp::Nil(hloc()))));
                    let lb = Rc::new(SExp::Cons(hloc(), b.clone(), Rc::new(SExp::Nil(hloc()))));
                    if (la == lb) != same {
                        out.violation(json!({"kind":"list_equality_vs_bytes","a":ka,"b":kb}));
                    }
                }
            }
        }
    }
    if out.samples.len() < out.sample_cap && n > 3 {
        out.sample(json!({"equality_pool": forms.iter().map(|f| f.0.clone()).take(14).collect::<Vec<_>>()}));
    }
}

pub fn interesting_atom(rng: &mut Rng) -> Vec<u8> {
    match rng.below(14) {
        0 => { let mut b = vec![0u8; 1 + rng.below(3)]; b.extend(rng.rbytes(1, 4)); b }
        1 => { let mut b = vec![0xffu8; 1 + rng.below(3)]; b.extend(rng.rbytes(1, 4)); b }
        2 => (0..1 + rng.below(12)).map(|_| 32 + rng.below(95) as u8).collect(),
        3 => { let mut b: Vec<u8> = (0..1 + rng.below(6)).map(|_| { let al = b"ab\"'\\() .;#0x-"; al[rng.below(al.len())] }).collect(); if b.is_empty() { b.push(b'a'); } b }
        4 => rng.bytes(32),
        5 => { let n = 1000 + rng.below(6000); rng.bytes(n) }
        6 => (0..1 + rng.below(8)).map(|_| b"0123456789"[rng.below(10)]).collect(),
        7 => { let mut b = b"0x".to_vec(); b.extend((0..rng.below(6)).map(|_| b"0123456789abcdefg"[rng.below(17)])); b }
        8 => (*rng.pick(&[&b"q"[..], b"a", b"sha256", b"+", b"mod", b"include", b"@", b"defun", b"-1", b"()", b"\"", b"\\"])).to_vec(),
        9 => int_to_bytes(rng.range(-70000, 70000) as i128),
        10 => vec![0],
        11 => vec![0, 0],
        12 => { let mut b = int_to_bytes(rng.range(1, 60000) as i128); b.push(0); b }
        _ => { let n = 1 + rng.below(5); rng.bytes(n) }
    }
}

pub fn interesting_tree(rng: &mut Rng, depth: usize) -> V {
    if depth == 0 || rng.chance(2, 5) {
        V::A(interesting_atom(rng))
    } else {
        let n = rng.below(4);
        let items: Vec<V> = (0..n).map(|_| interesting_tree(rng, depth - 1)).collect();
        if rng.chance(1, 4) {
            V::list_with_tail(&items, V::A(interesting_atom(rng)))
        } else {
            V::list(&items)
        }
    }
}

pub fn run(cfg: &Cfg) -> i32 {
    let mut out = Out::new("C07", cfg);
    let shard = cfg.shard as u64;
    let ns = cfg.nshards as u64;
    // A. exhaustive atoms
    let maxlen = cfg.pick(2usize, 3usize);
    let mut total = 0u64;
    for len in 0..=maxlen {
        let count = 256u64.pow(len as u32);
        total += count;
        let mut i = shard;
        while i < count {
            let mut b = vec![0u8; len];
            let mut k = i;
            for p in (0..len).rev() {
                b[p] = (k & 0xff) as u8;
                k >>= 8;
            }
            check_value(&mut out, "atoms_exhaustive", &V::A(b), true);
            i += ns;
        }
    }
    out.extra.insert("atoms_exhaustive_total".into(), json!(total));
    out.extra.insert("atoms_exhaustive_maxlen".into(), json!(maxlen));
    // B. random interesting atoms and trees
    let mut rng = Rng::derive(cfg.seed, 7, shard);
    for _ in 0..cfg.pick(20_000, 200_000) {
        let t = interesting_tree(&mut rng, 4);
        check_value(&mut out, "random_trees", &t, true);
    }
    if out.samples.is_empty() {
        let t = interesting_tree(&mut rng, 3);
        out.sample(json!({"random_tree": trunc(&t.show(), 300)}));
    }
    // C. equality pools built from colliding spellings
    let fixed_pools: Vec<Vec<Vec<u8>>> = vec![
        vec![b"a".to_vec(), vec![97], vec![0, 97], vec![97, 0], vec![]],
        vec![vec![], vec![0], vec![0, 0]],
        vec![vec![0xff], vec![0, 0xff], vec![0xff, 0xff], int_to_bytes(-1), int_to_bytes(255)],
        vec![b"1".to_vec(), vec![1], vec![0x31]],
        vec![b"hello".to_vec(), b"hello ".to_vec(), b"Hello".to_vec()],
        vec![vec![0x80], vec![0, 0x80], vec![0xff, 0x80]],
    ];
    if cfg.shard == 0 {
        for p in fixed_pools.iter() {
            check_pool(&mut out, p);
        }
    }
    for _ in 0..cfg.pick(300, 3000) {
        let base = interesting_atom(&mut rng);
        if base.len() > 40 {
            continue;
        }
        let mut pool = vec![base.clone()];
        let mut z = vec![0u8];
        z.extend(&base);
        pool.push(z);
        let mut t = base.clone();
        t.push(0);
        pool.push(t);
        let mut f = vec![0xffu8];
        f.extend(&base);
        pool.push(f);
        pool.push(interesting_atom(&mut rng));
        pool.retain(|b| b.len() <= 40);
        check_pool(&mut out, &pool);
    }
    let bad = out.get("violations");
    out.finish(cfg);
    if bad > 0 { 1 } else { 0 }
}
