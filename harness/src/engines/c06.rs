// C06 — the stepping evaluator agrees with the consensus evaluator.
use std::rc::Rc;

use clvmr::allocator::Allocator;
use serde_json::json;

use chialisp::compiler::clvm::{convert_to_clvm_rs, NewStyleIntConversion};
use chialisp::compiler::sexp::SExp;

use crate::clvmgen::*;
use crate::common::*;
use crate::repo::*;

#[derive(Clone, Copy, Debug, PartialEq, Eq)]
pub enum Verdict {
    AgreeVal,
    AgreeFail,
    Inconclusive,
    Violation,
}

pub struct CaseResult {
    pub verdict: Verdict,
    pub consensus: String,
    pub stepping: String,
}

fn spell_sexp(v: &V, sp: Spell) -> Option<Rc<SExp>> {
    match sp {
        Spell::Natural => natural_sexp(v).ok(),
        _ => Some(v_to_sexp(v, sp)),
    }
}

/// Head positions keep a numeric spelling (a *name* in head position is a different program: the
/// stepping evaluator reads names by design); other positions use `sp`.
fn spell_positional(v: &V, sp: Spell, head: bool) -> Rc<SExp> {
    match v {
        V::A(b) => Rc::new(atom_sexp(b, if head { Spell::IntOrHex } else { sp })),
        V::P(a, b) => Rc::new(SExp::Cons(hloc(), spell_positional(a, sp, true), spell_positional(b, sp, false))),
    }
}

pub fn one_case(prog: &V, env: &V, sp: Spell, new_mode: bool, step_limit: usize) -> CaseResult {
    let _mode = NewStyleIntConversion::new(new_mode);
    let (ps, es) = match sp {
        Spell::Natural => match (spell_sexp(prog, sp), spell_sexp(env, sp)) {
            (Some(p), Some(e)) => (p, e),
            _ => {
                return CaseResult { verdict: Verdict::Inconclusive, consensus: "convert failed".into(), stepping: "".into() };
            }
        },
        // In head position the evaluator reads Atom and QuotedString as operator *names* by design
        // (translate_head), so heads keep a numeric spelling; every other position uses `sp`.
        _ => (spell_positional(prog, sp, false), spell_positional(env, sp, false)),
    };
    // the oracle runs on the conversion of the very same rich value
    let mut a = Allocator::new();
    let (pn, en) = match (convert_to_clvm_rs(&mut a, ps.clone()), convert_to_clvm_rs(&mut a, es.clone())) {
        (Ok(p), Ok(e)) => (p, e),
        _ => return CaseResult { verdict: Verdict::Inconclusive, consensus: "convert failed".into(), stepping: "".into() },
    };
    let cons = consensus_run_nodes(&mut a, pn, en, 500_000_000);
    let step = stepping_eval(ps, es, step_limit);
    let verdict = match (&cons, &step) {
        (Outcome::CostCap, _) | (_, StepOutcome::StepLimit) => Verdict::Inconclusive,
        (_, StepOutcome::Panic(_)) => Verdict::Violation,
        (Outcome::Val(x), StepOutcome::Val(y)) => {
            if x == y {
                Verdict::AgreeVal
            } else {
                Verdict::Violation
            }
        }
        (Outcome::Fail(_), StepOutcome::Fail(_)) => Verdict::AgreeFail,
        _ => Verdict::Violation,
    };
    CaseResult { verdict, consensus: cons.show(), stepping: format!("{step:?}") }
}

/// Evaluated positions only: (q . data) is skipped.  True when an operator position holds a list
/// (the ((X) . args) syntax) or an argument list ends in a non-nil atom.
fn has_headpair_or_improper(v: &V) -> bool {
    match v {
        V::A(_) => false,
        V::P(a, b) => {
            if a.is_pair() {
                return true;
            }
            if let V::A(h) = &**a {
                if h.as_slice() == [1u8] {
                    return false; // quote: the rest is data
                }
            }
            let mut cur: &V = b;
            loop {
                match cur {
                    V::P(x, y) => {
                        if has_headpair_or_improper(x) {
                            return true;
                        }
                        cur = y;
                    }
                    V::A(t) => return !t.is_empty(),
                }
            }
        }
    }
}

/// Anywhere (including quoted data that `a` may run): a list in head position or an improper list.
fn data_has_headpair_or_improper(v: &V) -> bool {
    match v {
        V::A(_) => false,
        V::P(a, b) => {
            if a.is_pair() {
                return true;
            }
            if let V::A(h) = &**a {
                if h.as_slice() == [1u8] {
                    // (q . X): X itself may be the form that `a` runs
                    return data_has_headpair_or_improper(b);
                }
            }
            let mut cur: &V = b;
            loop {
                match cur {
                    V::P(x, y) => {
                        if data_has_headpair_or_improper(x) {
                            return true;
                        }
                        cur = y;
                    }
                    V::A(t) => return !t.is_empty(),
                }
            }
        }
    }
}

fn noncanonical(b: &[u8]) -> bool {
    !b.is_empty() && (b == [0] || num_bigint::BigInt::from_signed_bytes_be(b).to_signed_bytes_be() != b || b.len() > 1)
}

fn has_noncanonical_head(v: &V) -> bool {
    match v {
        V::A(_) => false,
        V::P(a, b) => {
            (match &**a {
                V::A(h) => noncanonical(h),
                p => has_noncanonical_head(p),
            }) || has_noncanonical_head(b)
        }
    }
}

fn contains_zero_led_or_zero_atom(v: &V) -> bool {
    match v {
        V::A(b) => !b.is_empty() && b[0] == 0,
        V::P(a, b) => contains_zero_led_or_zero_atom(a) || contains_zero_led_or_zero_atom(b),
    }
}

fn judge(out: &mut Out, stratum: &str, prog: &V, env: &V, sp: Spell, new_mode: bool, step_limit: usize) {
    let r = one_case(prog, env, sp, new_mode, step_limit);
    out.count("evaluations");
    out.count(&format!("stratum.{stratum}"));
    match r.verdict {
        Verdict::AgreeVal => {
            out.count("agree.value");
            out.nontrivial(fnv_s(&format!("{}|{}", prog.hex(), env.hex())));
            if out.samples.len() < out.sample_cap && prog.nodes() > 5 {
                out.sample(json!({"stratum":stratum,"program":prog.show(),"env":trunc(&env.show(),120),"spelling":format!("{sp:?}"),"int_mode_new":new_mode,"both":r.consensus}));
            }
        }
        Verdict::AgreeFail => out.count("agree.fail"),
        Verdict::Inconclusive => out.inconclusive("limit", json!({"program":prog.show(),"env":trunc(&env.show(),120)})),
        Verdict::Violation => {
            // legacy integer mode: a disagreement that disappears in the fixed mode and involves a
            // zero-led atom is the documented legacy-truthiness finding; anything else is a violation.
            let mut sig = None;
            let unimpl = r.consensus.contains("unimplemented operator") != r.stepping.contains("unimplemented operator");
            let legacy_msg = r.stepping.starts_with("Fail(\"Unexpected head form in clvm") || r.stepping.starts_with("Fail(\"bad argument list");
            let _ = legacy_msg;
            // the legacy syntax may sit in quoted code that `a` runs, or be built at run time: (a X E) where X evaluates to a
            // program with a list in operator position / an improper argument list
            let built_at_run_time = match prog.proper_list() {
                Some(l) if l.len() == 3 && l[0] == V::A(vec![2]) => match consensus_run_cap(&l[1], env, 100_000_000) {
                    Outcome::Val(code) => has_headpair_or_improper(&code) || data_has_headpair_or_improper(&code),
                    _ => false,
                },
                _ => false,
            };
            if has_headpair_or_improper(prog) || (r.consensus.starts_with("value") && (data_has_headpair_or_improper(prog) || built_at_run_time)) {
                // ((X) . args) "operator applied to unevaluated args" syntax and non-nil argument list
                // terminators: clvm accepts them, the stepping evaluator does not implement them
                sig = Some("stepping:legacy-head-list-or-improper-arglist".to_string());
            } else if has_noncanonical_head(prog) && unimpl {
                sig = Some("stepping:noncanonical-operator-atom".to_string());
            }
            if sig.is_none() && !new_mode && (contains_zero_led_or_zero_atom(prog) || contains_zero_led_or_zero_atom(env)) {
                let again = one_case(prog, env, sp, true, step_limit);
                if matches!(again.verdict, Verdict::AgreeVal | Verdict::AgreeFail) {
                    sig = Some("legacy-int-mode:zero-led-atom".to_string());
                }
            }
            out.violation(json!({"kind":"stepping_vs_consensus","engine":"c06","sig":sig,"stratum":stratum,"program_hex":prog.hex(),"env_hex":env.hex(),
                "program":trunc(&prog.show(),400),"env":trunc(&env.show(),200),"spelling":format!("{sp:?}"),"int_mode_new":new_mode,
                "consensus":r.consensus,"stepping":trunc(&r.stepping,300)}));
        }
    }
}

const SPELLS: [Spell; 5] = [Spell::Natural, Spell::IntOrHex, Spell::Hex, Spell::Atom, Spell::Str];

pub fn run(cfg: &Cfg) -> i32 {
    if let Some(p) = &cfg.replay {
        return replay(p);
    }
    let mut out = Out::new("C06", cfg);
    let envs = standard_envs();
    let alphabet = reduced_alphabet();
    let shard = cfg.shard as u64;
    let ns = cfg.nshards as u64;

    // A. exhaustive raw trees over the reduced alphabet
    let max_leaves = cfg.pick(4, 5);
    let mut raw_total = 0u64;
    for leaves in 1..=max_leaves {
        let shapes = catalan_shapes(leaves);
        let total = raw_count(leaves, alphabet.len());
        raw_total += total;
        let mut idx = shard;
        while idx < total {
            let prog = raw_tree(leaves, &alphabet, &shapes, idx);
            for (k, env) in envs.iter().enumerate() {
                if k >= 3 && leaves == max_leaves && max_leaves >= 5 {
                    break;
                }
                let sp = SPELLS[((idx as usize) + k) % 3];
                judge(&mut out, "raw_exhaustive", &prog, env, sp, true, 20_000);
            }
            idx += ns;
        }
    }
    out.extra.insert("raw_trees_enumerated_total".into(), json!(raw_total));
    out.extra.insert("raw_max_leaves".into(), json!(max_leaves));

    // B. grammar-directed exhaustive expressions
    let gmax = cfg.pick(4, 5);
    let g = Gram::build(gmax);
    let mut gtotal = 0u64;
    for n in 1..=gmax {
        for (i, prog) in g.by_size[n].iter().enumerate() {
            gtotal += 1;
            if (i as u64) % ns != shard {
                continue;
            }
            for (k, env) in envs.iter().enumerate() {
                if n == gmax && gmax >= 5 && k != (i % envs.len()) {
                    continue;
                }
                let sp = SPELLS[(i + k) % SPELLS.len()];
                judge(&mut out, "grammar_exhaustive", prog, env, sp, true, 50_000);
            }
        }
    }
    out.extra.insert("grammar_exprs_enumerated_total".into(), json!(gtotal));
    out.extra.insert("grammar_max_size".into(), json!(gmax));

    // C. random larger trees over the full operator set, hostile shapes, both integer modes
    let ops = full_ops();
    let nrand = cfg.pick(60_000, 400_000);
    let mut rng = Rng::derive(cfg.seed, 6, shard);
    for i in 0..nrand {
        let mut paths = vec![];
        let hostile = if i % 3 == 0 { 15 } else { 3 };
        let depth = 2 + rng.below(4);
        let prog = rand_expr(&mut rng, depth, &ops, hostile, &mut paths);
        let env = match rng.below(4) {
            0 => env_for_paths(&paths, 1),
            1 => envs[rng.below(envs.len())].clone(),
            2 => rand_data(&mut rng, 4),
            _ => {
                let mut all = vec![];
                atoms_of(&prog, &mut all);
                env_for_paths(&all, 0)
            }
        };
        let sp = SPELLS[rng.below(SPELLS.len())];
        let legacy = i % 10 == 9;
        judge(&mut out, if legacy { "random_legacy_int_mode" } else { "random" }, &prog, &env, sp, !legacy, 200_000);
    }

    // D. pinned regressions (always run): numeric opcodes that spell operator names in ASCII
    for (opc, args) in [(61u8, vec![17i64, 5]), (62, vec![5]), (43, vec![1, 2]), (113, vec![1]), (97, vec![1, 1]), (99, vec![1, 2])] {
        let qargs: Vec<V> = args.iter().map(|x| quote(V::int(*x))).collect();
        let prog = V::cons(V::A(vec![opc]), V::list(&qargs));
        for sp in [Spell::Natural, Spell::IntOrHex, Spell::Hex] {
            judge(&mut out, "pinned_opcode_vs_name", &prog, &V::nil(), sp, true, 1000);
        }
    }
    // pinned witnesses of the listed known findings (so each is re-established on every run)
    if cfg.shard == 0 {
        let w1 = V::list(&[V::A(vec![0, 5]), V::A(vec![7])]);
        judge(&mut out, "pinned_known", &w1, &V::list(&[V::int(1), V::int(2), V::int(60)]), Spell::Natural, true, 1000);
        let w2 = V::list(&[V::A(vec![3]), quote(V::A(vec![0])), quote(V::int(1)), quote(V::int(2))]);
        judge(&mut out, "pinned_known", &w2, &V::nil(), Spell::Natural, false, 1000);
        let w3 = V::cons(V::cons(V::A(vec![11]), V::A(vec![1])), V::A(vec![1]));
        judge(&mut out, "pinned_known", &w3, &V::nil(), Spell::Natural, true, 1000);
    }
    let bad = out.get("violations");
    out.finish(cfg);
    if bad > 0 {
        1
    } else {
        0
    }
}

fn replay(path: &str) -> i32 {
    let j: serde_json::Value = serde_json::from_str(&std::fs::read_to_string(path).expect("read replay")).expect("json");
    let v = j.get("violation").unwrap_or(&j);
    let prog = V::from_ser(&hex::decode(v["program_hex"].as_str().unwrap()).unwrap()).unwrap();
    let env = V::from_ser(&hex::decode(v["env_hex"].as_str().unwrap()).unwrap()).unwrap();
    let new_mode = v["int_mode_new"].as_bool().unwrap_or(true);
    let sp = match v["spelling"].as_str().unwrap_or("Natural") {
        "IntOrHex" => Spell::IntOrHex,
        "Hex" => Spell::Hex,
        "Atom" => Spell::Atom,
        "Str" => Spell::Str,
        _ => Spell::Natural,
    };
    let r = one_case(&prog, &env, sp, new_mode, 10_000_000);
    println!("program  : {}", prog.show());
    println!("env      : {}", env.show());
    println!("consensus: {}", r.consensus);
    println!("stepping : {}", r.stepping);
    println!("verdict  : {:?}", r.verdict);
    if r.verdict == Verdict::Violation {
        println!("VIOLATION property=C06 replay={path}");
        1
    } else {
        0
    }
}
