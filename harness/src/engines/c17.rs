// C17 — an argument reported as unused really cannot influence the result.
use std::collections::BTreeSet;
use std::rc::Rc;

use serde_json::json;

use chialisp::classic::clvm_tools::debug::check_unused;
use chialisp::compiler::compiler::DefaultCompilerOpts;
use chialisp::compiler::comptypes::CompilerOpts;

use crate::common::*;
use crate::engines::c01::case_at;
use crate::gen::*;
use crate::progs::*;
use crate::repo::*;

const MODES: [&str; 16] = [
    "direct", "helper", "inline", "let", "lambda", "branch_of_dynamic_condition", "condition_position", "failing_branch_only", "dead_branch_of_static_condition",
    "not_at_all", "helper_that_ignores_it", "rest_argument", "second_use_only_in_helper_of_helper", "end_of_a_chain_of_conditional_helpers", "deeply_nested_argument_expression", "captured_by_a_returned_lambda",
];

/// One use expression for parameter `u` in the given mode; may add helpers. `other`: another parameter (or a literal) for conditions.
/// a small expression that mentions `u` (bare, inside arithmetic with a constant, next to quoted data, as an inner condition …)
fn decorated(rng: &mut Rng, u: &str) -> Expr {
    let v = Expr::Var(u.to_string());
    match rng.below(7) {
        0 | 1 => v,
        2 => Expr::Prim("+", vec![v, Expr::Lit(Lit::Int(1))]),
        3 => Expr::Prim("sha256", vec![v, Expr::Lit(Lit::Int(5))]),
        4 => Expr::Prim("c", vec![v, Expr::Quote(V::list(&[V::int(7), V::int(8)]))]),
        5 => Expr::If(Box::new(v), Box::new(Expr::Quote(V::int(5))), Box::new(Expr::Lit(Lit::Int(6)))),
        _ => Expr::List(vec![v, Expr::Lit(Lit::Str(b"x".to_vec(), b'"'))]),
    }
}

fn use_expr(rng: &mut Rng, mode: &str, u: &str, other: &Expr, k: usize, helpers: &mut Vec<Helper>) -> Expr {
    let du = decorated(rng, u);
    let v = |n: &str| if n == u { du.clone() } else { Expr::Var(n.to_string()) };
    let int = |i: i64| Expr::Lit(Lit::Int(i));
    let one_param = |n: &str| Pat::flat(&[(n.to_string(), Ty::Any)], None);
    match mode {
        "direct" => v(u),
        "helper" => {
            let name = format!("uh_{k}");
            helpers.push(Helper::Fun(Fun { name: name.clone(), inline: false, params: one_param("X"), body: Expr::List(vec![v("X"), int(1)]), ret: Ty::Any, recursive: false }));
            Expr::Call(name, vec![v(u)], None)
        }
        "inline" => {
            let name = format!("ui_{k}");
            helpers.push(Helper::Fun(Fun { name: name.clone(), inline: true, params: one_param("X"), body: Expr::List(vec![int(2), v("X")]), ret: Ty::Any, recursive: false }));
            Expr::Call(name, vec![v(u)], None)
        }
        "let" => {
            let t = format!("t{k}");
            Expr::Let(LetKind::Let, vec![(Pat::Var(t.clone(), Ty::Any), v(u))], Box::new(Expr::List(vec![v(&t), v(&t)])))
        }
        "lambda" => {
            let z = format!("z{k}");
            Expr::Apply(Box::new(Expr::Lambda(vec![u.to_string()], Pat::flat(&[(z.clone(), Ty::Int)], None), Box::new(Expr::List(vec![v(u), v(&z)])))), Box::new(Expr::List(vec![int(5)])))
        }
        "branch_of_dynamic_condition" => Expr::If(Box::new(other.clone()), Box::new(v(u)), Box::new(int(7))),
        "condition_position" => Expr::If(Box::new(v(u)), Box::new(int(11)), Box::new(int(12))),
        "failing_branch_only" => Expr::If(Box::new(other.clone()), Box::new(Expr::Prim("x", vec![v(u)])), Box::new(int(3))),
        "dead_branch_of_static_condition" => Expr::If(Box::new(Expr::Prim("=", vec![int(4), int(4)])), Box::new(int(9)), Box::new(v(u))),
        "not_at_all" => int(13),
        "helper_that_ignores_it" => {
            let name = format!("ug_{k}");
            helpers.push(Helper::Fun(Fun { name: name.clone(), inline: k % 2 == 0, params: one_param("X"), body: int(17), ret: Ty::Int, recursive: false }));
            Expr::Call(name, vec![v(u)], None)
        }
        "rest_argument" => {
            let name = format!("ur_{k}");
            helpers.push(Helper::Fun(Fun { name: name.clone(), inline: false, params: Pat::flat(&[("X".to_string(), Ty::Any)], Some(("R".to_string(), Ty::Any))), body: Expr::List(vec![v("X"), v("R")]), ret: Ty::Any, recursive: false }));
            Expr::Call(name, vec![int(1)], Some(Box::new(v(u))))
        }
        "captured_by_a_returned_lambda" => {
            // the closure itself is part of the result: its captured value is in it
            let z = format!("z{k}");
            Expr::Lambda(vec![u.to_string()], Pat::flat(&[(z.clone(), Ty::Int)], None), Box::new(Expr::List(vec![Expr::Var(u.to_string()), Expr::Var(z)])))
        }
        "end_of_a_chain_of_conditional_helpers" => {
            // h_0(X) = (if X (h_1 X) 0) ... h_n(X) = X : the parameter only comes out at the end of n nested conditionals
            let n = *rng.pick(&[2usize, 5, 12, 19, 20, 21, 30, 45]);
            for i in 0..n {
                helpers.push(Helper::Fun(Fun { name: format!("ch_{k}_{i}"), inline: false, params: one_param("X"),
                    body: Expr::If(Box::new(Expr::Var("X".into())), Box::new(Expr::Call(format!("ch_{k}_{}", i + 1), vec![Expr::Var("X".into())], None)), Box::new(int(0))), ret: Ty::Any, recursive: false }));
            }
            helpers.push(Helper::Fun(Fun { name: format!("ch_{k}_{n}"), inline: false, params: one_param("X"), body: Expr::Var("X".into()), ret: Ty::Any, recursive: false }));
            Expr::Call(format!("ch_{k}_0"), vec![v(u)], None)
        }
        "deeply_nested_argument_expression" => {
            let depth = *rng.pick(&[3usize, 8, 15, 30, 40]);
            let mut e = v(u);
            for i in 0..depth {
                e = Expr::If(Box::new(other.clone()), Box::new(Expr::List(vec![e, int(i as i64)])), Box::new(int(0)));
            }
            let name = format!("dn_{k}");
            helpers.push(Helper::Fun(Fun { name: name.clone(), inline: false, params: one_param("X"), body: Expr::If(Box::new(Expr::Var("X".into())), Box::new(Expr::Var("X".into())), Box::new(int(1))), ret: Ty::Any, recursive: false }));
            Expr::Call(name, vec![e], None)
        }
        _ => {
            let n1 = format!("uo_{k}");
            let n2 = format!("up_{k}");
            helpers.push(Helper::Fun(Fun { name: n2.clone(), inline: false, params: one_param("Y"), body: Expr::If(Box::new(v("Y")), Box::new(int(1)), Box::new(int(0))), ret: Ty::Int, recursive: false }));
            helpers.push(Helper::Fun(Fun { name: n1.clone(), inline: true, params: one_param("X"), body: Expr::Call(n2, vec![v("X")], None), ret: Ty::Int, recursive: false }));
            Expr::Call(n1, vec![v(u)], None)
        }
    }
}

fn lower_main_params(text: &str) -> String {
    // main parameters are named A<digits> by the generator; the check only looks at lower-case names
    let b = text.as_bytes();
    let mut out = String::with_capacity(text.len());
    let mut i = 0;
    let is_sym = |c: u8| c.is_ascii_alphanumeric() || c == b'_' || c == b'-' || c == b'$';
    let mut in_str: Option<u8> = None;
    while i < b.len() {
        let c = b[i];
        if let Some(q) = in_str {
            out.push(c as char);
            if c == q {
                in_str = None;
            }
            i += 1;
            continue;
        }
        if c == b'"' || c == b'\'' {
            in_str = Some(c);
            out.push(c as char);
            i += 1;
            continue;
        }
        if c == b'A' && (i == 0 || !is_sym(b[i - 1])) {
            let mut j = i + 1;
            while j < b.len() && b[j].is_ascii_digit() {
                j += 1;
            }
            if j > i + 1 && (j == b.len() || !is_sym(b[j])) {
                out.push('a');
                out.push_str(&text[i + 1..j]);
                i = j;
                continue;
            }
        }
        out.push(c as char);
        i += 1;
    }
    out
}

fn subst(pat: &Pat, val: &V, name: &str, newv: &V) -> V {
    match (pat, val) {
        (Pat::Var(n, _), _) if n == name => newv.clone(),
        (Pat::Pair(a, b), V::P(l, r)) => V::cons(subst(a, l, name, newv), subst(b, r, name, newv)),
        (Pat::At(_, q), _) => subst(q, val, name, newv),
        _ => val.clone(),
    }
}

/// plain variables not below (and not themselves) an @ capture: for those "differ only in that parameter" is well defined
fn independent_vars(p: &Pat, under_at: bool, out: &mut BTreeSet<String>) {
    match p {
        Pat::Nil => {}
        Pat::Var(n, _) => {
            if !under_at {
                out.insert(n.clone());
            }
        }
        Pat::Pair(a, b) => {
            independent_vars(a, under_at, out);
            independent_vars(b, under_at, out);
        }
        Pat::At(_, q) => independent_vars(q, true, out),
    }
}

fn report(text: &str) -> Result<Vec<String>, String> {
    let t = text.to_string();
    match guard(move || {
        let opts: Rc<dyn CompilerOpts> = Rc::new(DefaultCompilerOpts::new("*c17*"));
        check_unused(opts, &t)
    }) {
        Ok(Ok((_, listing))) => Ok(listing.lines().filter_map(|l| l.strip_prefix(" - ").map(|x| x.trim().to_string())).collect()),
        Ok(Err(e)) => Err(format!("{}: {}", e.0, e.1)),
        Err(p) => Err(format!("PANIC {p}")),
    }
}

fn variants(rng: &mut Rng) -> Vec<V> {
    vec![
        V::nil(),
        V::int(1),
        V::int(rng.range(-5000, 5000)),
        V::atom(&rng.rbytes(1, 40)),
        V::list(&[V::int(3), V::int(4)]),
        V::cons(V::int(rng.range(0, 99)), V::int(rng.range(0, 99))),
        gen_value(rng, Ty::Any),
    ]
}


// ------------------------------------------------------------------------------------------------
// counterfactual twin: every let / let* / assign form lambda-lifted into a call of a new inline function

fn pat_list(items: Vec<Pat>) -> Pat {
    let mut p = Pat::Nil;
    for it in items.into_iter().rev() {
        p = Pat::Pair(Box::new(it), Box::new(p));
    }
    p
}

fn pat_names(p: &Pat) -> BTreeSet<String> {
    let mut v = vec![];
    p.vars(&mut v);
    v.into_iter().map(|x| x.0).collect()
}

struct Lifter {
    helpers: Vec<Helper>,
    ctr: usize,
    failed: bool,
}

impl Lifter {
    fn lift_qq(&mut self, q: &QQ, scope: &BTreeSet<String>) -> QQ {
        match q {
            QQ::Data(v) => QQ::Data(v.clone()),
            QQ::Unquote(e) => QQ::Unquote(self.lift(e, scope)),
            QQ::Cons(a, b) => QQ::Cons(Box::new(self.lift_qq(a, scope)), Box::new(self.lift_qq(b, scope))),
        }
    }

    fn parallel(&mut self, binds: &[(Pat, Expr)], body: &Expr, scope: &BTreeSet<String>) -> Expr {
        // destructuring patterns are taken apart first: the value goes to a temporary, the names of the pattern are bound
        // (one level further in) to accessor expressions over it, so every lifted function has plain parameters
        if binds.iter().any(|(p, _)| !matches!(p, Pat::Var(_, _))) {
            let mut outer: Vec<(Pat, Expr)> = vec![];
            let mut inner: Vec<(Pat, Expr)> = vec![];
            fn accessors(p: &Pat, x: Expr, out: &mut Vec<(Pat, Expr)>) {
                match p {
                    Pat::Nil => {}
                    Pat::Var(n, t) => out.push((Pat::Var(n.clone(), *t), x)),
                    Pat::At(n, q) => {
                        out.push((Pat::Var(n.clone(), Ty::Any), x.clone()));
                        accessors(q, x, out);
                    }
                    Pat::Pair(a, b) => {
                        accessors(a, Expr::Prim("f", vec![x.clone()]), out);
                        accessors(b, Expr::Prim("r", vec![x]), out);
                    }
                }
            }
            for (p, e) in binds.iter() {
                match p {
                    Pat::Var(_, _) => outer.push((p.clone(), e.clone())),
                    _ => {
                        let tmp = format!("lt_{}", self.ctr);
                        self.ctr += 1;
                        outer.push((Pat::Var(tmp.clone(), Ty::Any), e.clone()));
                        accessors(p, Expr::Var(tmp), &mut inner);
                    }
                }
            }
            let inner_let = Expr::Let(LetKind::Let, inner, Box::new(body.clone()));
            return self.parallel(&outer, &inner_let, scope);
        }
        let vals: Vec<Expr> = binds.iter().map(|(_, e)| self.lift(e, scope)).collect();
        let mut bound = BTreeSet::new();
        for (p, _) in binds {
            bound.extend(pat_names(p));
        }
        let mut inner = scope.clone();
        inner.extend(bound.iter().cloned());
        let body2 = self.lift(body, &inner);
        let mut mentioned = BTreeSet::new();
        crate::refi::free_vars(&body2, &mut mentioned);
        let fvs: Vec<String> = mentioned.into_iter().filter(|n| scope.contains(n) && !bound.contains(n)).collect();
        let name = format!("ll_{}", self.ctr);
        self.ctr += 1;
        let mut params: Vec<Pat> = binds.iter().map(|(p, _)| p.clone()).collect();
        params.extend(fvs.iter().map(|n| Pat::Var(n.clone(), Ty::Any)));
        self.helpers.push(Helper::Fun(Fun { name: name.clone(), inline: true, params: pat_list(params), body: body2, ret: Ty::Any, recursive: false }));
        let mut args = vals;
        args.extend(fvs.into_iter().map(Expr::Var));
        Expr::Call(name, args, None)
    }

    fn lift(&mut self, e: &Expr, scope: &BTreeSet<String>) -> Expr {
        match e {
            Expr::Lit(_) | Expr::Var(_) | Expr::Quote(_) => e.clone(),
            Expr::ModVal(_) => {
                self.failed = true;
                e.clone()
            }
            Expr::Prim(op, a) => Expr::Prim(op, a.iter().map(|x| self.lift(x, scope)).collect()),
            Expr::List(a) => Expr::List(a.iter().map(|x| self.lift(x, scope)).collect()),
            Expr::MacroCall(n, a) => Expr::MacroCall(n.clone(), a.iter().map(|x| self.lift(x, scope)).collect()),
            Expr::If(a, b, c) => Expr::If(Box::new(self.lift(a, scope)), Box::new(self.lift(b, scope)), Box::new(self.lift(c, scope))),
            Expr::Call(n, a, r) => Expr::Call(n.clone(), a.iter().map(|x| self.lift(x, scope)).collect(), r.as_ref().map(|x| Box::new(self.lift(x, scope)))),
            Expr::Apply(a, b) => Expr::Apply(Box::new(self.lift(a, scope)), Box::new(self.lift(b, scope))),
            Expr::QQ(q) => Expr::QQ(Box::new(self.lift_qq(q, scope))),
            Expr::Lambda(caps, pat, body) => {
                let mut inner: BTreeSet<String> = caps.iter().cloned().collect();
                inner.extend(pat_names(pat));
                Expr::Lambda(caps.clone(), pat.clone(), Box::new(self.lift(body, &inner)))
            }
            Expr::Let(kind, binds, body) => {
                if binds.is_empty() {
                    return self.lift(body, scope);
                }
                match kind {
                    LetKind::Let => self.parallel(binds, body, scope),
                    LetKind::LetStar => {
                        let rest = Expr::Let(LetKind::LetStar, binds[1..].to_vec(), body.clone());
                        self.parallel(&binds[..1], &rest, scope)
                    }
                    _ => {
                        // assign forms may list their bindings in any order: take one whose value needs none of the others
                        let all_bound: Vec<BTreeSet<String>> = binds.iter().map(|(p, _)| pat_names(p)).collect();
                        let pick = (0..binds.len()).find(|&i| {
                            let mut m = BTreeSet::new();
                            crate::refi::free_vars(&binds[i].1, &mut m);
                            (0..binds.len()).all(|j| j == i || all_bound[j].is_disjoint(&m))
                        });
                        match pick {
                            Some(i) => {
                                let mut rest_b = binds.clone();
                                let first = rest_b.remove(i);
                                let rest = Expr::Let(*kind, rest_b, body.clone());
                                self.parallel(&[first], &rest, scope)
                            }
                            None => {
                                self.failed = true;
                                e.clone()
                            }
                        }
                    }
                }
            }
        }
    }
}

pub fn lift_program(p: &Program) -> Option<Program> {
    let mut l = Lifter { helpers: vec![], ctr: 0, failed: false };
    let mut out = p.clone();
    let mut new_helpers = vec![];
    for h in p.helpers.iter() {
        new_helpers.push(match h {
            Helper::Fun(f) => {
                let scope = pat_names(&f.params);
                let mut g = f.clone();
                g.body = l.lift(&f.body, &scope);
                Helper::Fun(g)
            }
            Helper::ConstComplex(n, e, t) => Helper::ConstComplex(n.clone(), l.lift(e, &BTreeSet::new()), *t),
            other => other.clone(),
        });
    }
    let scope = pat_names(&p.params);
    out.body = l.lift(&p.body, &scope);
    if l.failed {
        return None;
    }
    new_helpers.extend(l.helpers);
    out.helpers = new_helpers;
    Some(out)
}

fn judge_program(out: &mut Out, rng: &mut Rng, cfg: &Cfg, id: &str, text: &str, params: &Pat, d: Dialect, dash_o: bool, extra_names: &[String], modes_used: &[&str], twin: Option<&str>, shape_prog: Option<&Program>) {
        let mut twin_report: Option<Option<Vec<String>>> = None; // computed on demand
        out.count("programs");
        let reported = match report(text) {
            Ok(r) => r,
            Err(m) => {
                if m.starts_with("PANIC") {
                    out.count("check_panicked");
                } else {
                    out.count("check_rejects_program");
                    out.seen("check_errors", &trunc(&m.split(':').last().unwrap_or("").trim().chars().filter(|c| !c.is_ascii_digit()).collect::<String>(), 60));
                }
                return;
            }
        };
        let compiled = match compile_cli_modern(text, None, &[], dash_o) {
            Ok(c) => c,
            Err(_) => {
                out.count("does_not_compile");
                return;
            }
        };
        out.count("evaluations");
        for m in modes_used.iter() {
            out.count(&format!("mode.{m}"));
        }
        let mut indep = BTreeSet::new();
        independent_vars(params, false, &mut indep);
        let mut judged_any = false;
        let mut ok = true;
        for name in reported.iter() {
            out.count("parameters_reported_unused");
            // reported names are the lowered ones; map back to the pattern's names
            let pat_name = if name.starts_with('a') && name[1..].bytes().all(|b| b.is_ascii_digit()) && name.len() > 1 { format!("A{}", &name[1..]) } else { name.clone() };
            if !indep.contains(&pat_name) {
                out.count("reported_parameter_overlaps_an_at_capture_not_judged");
                continue;
            }
            if let Some(k) = extra_names.iter().position(|n| *n == pat_name) {
                out.count(&format!("reported_unused.mode.{}", modes_used[k]));
            } else {
                out.count("reported_unused.generated_parameter");
            }
            let mut pairs = 0;
            for _ in 0..cfg.pick(3, 6) {
                let a = gen_args(rng, params);
                let base_out = consensus_run_cap(&compiled.prog, &a, 1_000_000_000);
                if base_out == Outcome::CostCap {
                    continue;
                }
                for nv in variants(rng) {
                    let b = subst(params, &a, &pat_name, &nv);
                    if b == a {
                        continue;
                    }
                    let o = consensus_run_cap(&compiled.prog, &b, 1_000_000_000);
                    if o == Outcome::CostCap {
                        continue;
                    }
                    pairs += 1;
                    let same = match (&base_out, &o) {
                        (Outcome::Val(x), Outcome::Val(y)) => x == y,
                        (x, y) => !x.is_val() && !y.is_val(),
                    };
                    if !same {
                        ok = false;
                        // listed finding: the check's evaluator is lazier than compiled code.  An argument expression handed to a
                        // function / lambda / assign-lambda binding that ignores it is dropped by the check but executed by the
                        // compiled program, so a parameter used only there is reported unused although a value of the wrong type
                        // (or a zero divisor) makes the program fail.  Attributed only to pairs where one run returns and the
                        // other fails inside an operator (never to an explicit raise, never to two different values).
                        let failing = if base_out.is_val() { o.show() } else { base_out.show() };
                        let mut sig = if base_out.is_val() != o.is_val() && !failing.contains("raise") { Some("usecheck:unused-parameter-only-decides-an-operator-failure-in-discarded-code") } else { None };
                        // listed finding: a let / assign bound variable used inside a branch of a dynamic conditional is lost
                        // (the branch is compiled by (com ..) in the scope of the program's parameters only).  Counterfactual:
                        // the same program with every let form lambda-lifted into an inline function call (same meaning, no let)
                        // is checked too; the violation is attributed only when the check no longer reports the parameter there.
                        if sig.is_none() {
                            if twin_report.is_none() {
                                twin_report = Some(twin.and_then(|t| report(t).ok()));
                            }
                            if let Some(Some(tr)) = &twin_report {
                                if !tr.contains(name) {
                                    sig = Some("usecheck:let-bound-variable-used-in-conditional-branch-is-lost");
                                }
                            }
                            if sig.is_none() && matches!(&twin_report, Some(None)) {
                                // the let-free twin cannot be checked (the evaluator gives up on it): attributed by the shape the
                                // finding needs — a conditional branch somewhere in the program mentions a let / assign bound name
                                if let Some(p) = shape_prog {
                                    if crate::engines::c16::branch_mentions_a_let_bound_name(p, &[]) {
                                        sig = Some("usecheck:let-bound-variable-used-in-conditional-branch-is-lost");
                                    }
                                }
                            }
                        }
                        out.violation(json!({"kind":"parameter_reported_unused_influences_the_result","engine":"c17","sig":sig,"case":id,"dialect":d.name(),"source":text,"reported_unused":reported,"parameter":name,
                            "mode":extra_names.iter().position(|n| *n == pat_name).map(|k| modes_used[k]),
                            "args_1":a.show(),"result_1":base_out.show(),"args_2":b.show(),"result_2":o.show()}));
                        break;
                    }
                }
                if !ok {
                    break;
                }
            }
            if pairs > 0 {
                judged_any = true;
                out.add("argument_pairs_compared", pairs);
            }
        }
        if ok && judged_any {
            out.nontrivial(fnv_s(text));
            if out.samples.len() < 3 {
                out.sample(json!({"case": id, "source": trunc(text, 600), "reported_unused": reported, "modes": modes_used}));
            }
        }
}

pub fn run(cfg: &Cfg) -> i32 {
    let mut out = Out::new("C17", cfg);
    let shard = cfg.shard as u64;
    let nprog: usize = std::env::var("VH_NPROG").ok().and_then(|x| x.parse().ok()).unwrap_or(cfg.pick(150, 2500));
    let mut rng = Rng::derive(cfg.seed, 17, shard);
    let mut gcfg = GenCfg::modern();
    gcfg.allow_zero_led = false;
    gcfg.allow_nested_mod = false;
    for i in out.resume_from..nprog {
        out.checkpoint(i);
        let base = case_at(cfg.seed.wrapping_add(17_000_000), shard, i as u64, &gcfg);
        if has_clo_param(&base.prog.params) {
            continue;
        }
        // add 1..4 lower-case parameters, each used in one chosen mode, in front / inside a nested group / as the dotted tail
        let mut prog = base.prog.clone();
        let nextra = 1 + rng.below(4);
        let mut uses = vec![];
        let mut extra_names: Vec<String> = vec![];
        let mut modes_used = vec![];
        let old_vars = {
            let mut v = vec![];
            prog.params.vars(&mut v);
            v
        };
        for k in 0..nextra {
            // names before and after `q` in byte order, short and long
            let u = format!("{}{k}", *rng.pick(&["u", "ww", "solution", "b", "k", "zeta", "m"]));
            let mode = MODES[rng.below(MODES.len())];
            let other = if !old_vars.is_empty() && rng.chance(2, 3) { Expr::Var(old_vars[rng.below(old_vars.len())].0.clone()) } else if k > 0 && rng.chance(1, 2) { Expr::Var(extra_names[k - 1].clone()) } else { Expr::Prim(">", vec![Expr::Lit(Lit::Int(rng.range(0, 3))), Expr::Lit(Lit::Int(1))]) };
            uses.push(use_expr(&mut rng, mode, &u, &other, k, &mut prog.helpers));
            modes_used.push(mode);
            extra_names.push(u);
        }
        let layout = rng.below(3);
        let vars: Vec<(String, Ty)> = extra_names.iter().map(|n| (n.clone(), Ty::Any)).collect();
        prog.params = match layout {
            0 => {
                // in front, flat
                let mut p = prog.params.clone();
                for (n, t) in vars.iter().rev() {
                    p = Pat::Pair(Box::new(Pat::Var(n.clone(), *t)), Box::new(p));
                }
                p
            }
            1 => Pat::Pair(Box::new(Pat::flat(&vars, None)), Box::new(prog.params.clone())), // one nested group in front
            _ => {
                // nested group whose last member takes the group's tail
                let mut vs = vars.clone();
                let last = vs.pop().unwrap();
                let g = if vs.is_empty() { Pat::Var(last.0, last.1) } else { Pat::flat(&vs, Some(last)) };
                Pat::Pair(Box::new(g), Box::new(prog.params.clone()))
            }
        };
        uses.push(prog.body.clone());
        prog.body = Expr::List(uses);
        let d = MODERN[i % 6];
        if !supported(&prog, d) {
            continue;
        }
        let id = format!("{}/{}", base.id, d.name());
        if !out.begin(&id) {
            continue;
        }
        let text = lower_main_params(&render_program(&prog, d, false));
        let twin = lift_program(&prog).map(|t| lower_main_params(&render_program(&t, d, false)));
        judge_program(&mut out, &mut rng, cfg, &id, &text, &prog.params, d, i % 2 == 1, &extra_names, &modes_used, twin.as_deref(), Some(&prog));
        out.end(&id);
    }
    if cfg.shard == 0 && out.begin("pinned-discarded-argument") {
        let text = "(mod (p0 p1)\n  (include *standard-cl-21*)\n  (defun ig (X) 17)\n  (c (ig (+ p0 1)) p1))\n";
        let params = Pat::flat(&[("p0".to_string(), Ty::Int), ("p1".to_string(), Ty::Int)], None);
        judge_program(&mut out, &mut rng, cfg, "pinned-discarded-argument", text, &params, Dialect::Cl21, false, &[], &[], None, None);
        let text2 = "(mod (p0 p1)\n  (include *standard-cl-21*)\n  (let ((v p0)) (if p1 v 5)))\n";
        let twin2 = "(mod (p0 p1)\n  (include *standard-cl-21*)\n  (defun-inline ll_0 (v p1) (if p1 v 5))\n  (ll_0 p0 p1))\n";
        judge_program(&mut out, &mut rng, cfg, "pinned-let-bound-use-in-branch", text2, &params, Dialect::Cl21, false, &[], &[], Some(twin2), None);
        out.end("pinned-discarded-argument");
    }
    let bad = out.get("violations");
    out.finish(cfg);
    if bad > 0 { 1 } else { 0 }
}
