// C13 — symbol tables describe the emitted program.
use std::collections::{BTreeSet, HashMap};
use std::rc::Rc;

use serde_json::json;
use sha2::{Digest, Sha256};

use chialisp::compiler::compiler::{extract_program_and_env, path_to_function, rewrite_in_program};
use chialisp::compiler::sexp::parse_sexp;
use chialisp::compiler::srcloc::Srcloc;

use crate::common::*;
use crate::engines::c01::case_at;
use crate::gen::*;
use crate::progs::*;
use crate::refi::*;
use crate::repo::*;

fn collect_hashes(v: &V, map: &mut HashMap<Vec<u8>, V>) -> Vec<u8> {
    let h: Vec<u8> = match v {
        V::A(b) => {
            let mut s = Sha256::new();
            s.update([1u8]);
            s.update(b);
            s.finalize().to_vec()
        }
        V::P(l, r) => {
            let lh = collect_hashes(l, map);
            let rh = collect_hashes(r, map);
            let mut s = Sha256::new();
            s.update([2u8]);
            s.update(&lh);
            s.update(&rh);
            s.finalize().to_vec()
        }
    };
    map.entry(h.clone()).or_insert_with(|| v.clone());
    h
}

fn text_v(t: &str) -> Option<V> {
    let forms = parse_sexp(Srcloc::start("*sym*"), t.bytes()).ok()?;
    if forms.len() != 1 {
        return None;
    }
    sexp_to_v(forms[0].clone()).ok()
}

/// an argument tree with the shape of a recorded argument list: a distinct integer for every name, nil stays nil
fn shape_args(shape: &V, ctr: &mut i64) -> V {
    match shape {
        V::A(b) if b.is_empty() => V::nil(),
        V::A(_) => {
            *ctr += 1;
            V::int(*ctr * 7 + 3)
        }
        V::P(a, b) => {
            // (@ name pattern) captures: the value has the shape of the pattern
            if let V::A(h) = &**a {
                if h == b"@" {
                    if let Some(l) = b.proper_list() {
                        if l.len() == 2 {
                            return shape_args(&l[1], ctr);
                        }
                    }
                }
            }
            let x = shape_args(a, ctr);
            let y = shape_args(b, ctr);
            V::cons(x, y)
        }
    }
}


fn strip_gensym(s: &str) -> String {
    let b: Vec<char> = s.chars().collect();
    let mut out = String::new();
    let mut i = 0;
    while i < b.len() {
        if i + 3 <= b.len() && b[i] == '_' && b[i + 1] == '$' && b[i + 2] == '_' {
            i += 3;
            while i < b.len() && b[i].is_ascii_digit() {
                i += 1;
            }
        } else {
            out.push(b[i]);
            i += 1;
        }
    }
    out
}

fn lambdas_qq(q: &QQ, out: &mut Vec<V>) {
    match q {
        QQ::Data(_) => {}
        QQ::Unquote(e) => lambdas_of(e, out),
        QQ::Cons(a, b) => {
            lambdas_qq(a, out);
            lambdas_qq(b, out);
        }
    }
}

/// ((captures..) . parameters) of every lambda in an expression
fn lambdas_of(e: &Expr, out: &mut Vec<V>) {
    match e {
        Expr::Lit(_) | Expr::Var(_) | Expr::Quote(_) => {}
        Expr::ModVal(p) => program_lambdas(p, out),
        Expr::Prim(_, a) | Expr::List(a) | Expr::MacroCall(_, a) => a.iter().for_each(|x| lambdas_of(x, out)),
        Expr::If(a, b, c) => {
            lambdas_of(a, out);
            lambdas_of(b, out);
            lambdas_of(c, out);
        }
        Expr::Call(_, a, r) => {
            a.iter().for_each(|x| lambdas_of(x, out));
            if let Some(r) = r {
                lambdas_of(r, out);
            }
        }
        Expr::Let(_, bs, body) => {
            bs.iter().for_each(|(_, x)| lambdas_of(x, out));
            lambdas_of(body, out);
        }
        Expr::Lambda(caps, pat, body) => {
            let caplist = V::list(&caps.iter().map(|c| V::atom(c.as_bytes())).collect::<Vec<_>>());
            if let Some(p) = text_v(&pat.render()) {
                out.push(V::cons(caplist, p));
            }
            lambdas_of(body, out);
        }
        Expr::Apply(a, b) => {
            lambdas_of(a, out);
            lambdas_of(b, out);
        }
        Expr::QQ(q) => lambdas_qq(q, out),
    }
}

fn program_lambdas(p: &Program, out: &mut Vec<V>) {
    lambdas_of(&p.body, out);
    for h in p.helpers.iter() {
        match h {
            Helper::Fun(f) => lambdas_of(&f.body, out),
            Helper::ConstComplex(_, e, _) => lambdas_of(e, out),
            Helper::Mac(m) => lambdas_of(&m.template, out),
            _ => {}
        }
    }
}

fn is_location_text(s: &str) -> bool {
    // file(line):col[-file(line):col]
    let b = s.as_bytes();
    if let Some(p) = s.rfind("):") {
        return p > 0 && b[p + 2..].iter().all(|c| c.is_ascii_digit()) && !b[p + 2..].is_empty() && s[..p].contains('(');
    }
    false
}

fn synthesised(name: &str) -> bool {
    name.contains("_$_")
}

fn calls_qq(q: &QQ, out: &mut BTreeSet<String>) {
    match q {
        QQ::Data(_) => {}
        QQ::Unquote(e) => calls(e, out),
        QQ::Cons(a, b) => {
            calls_qq(a, out);
            calls_qq(b, out);
        }
    }
}

/// names of functions and macros an expression refers to (calls, or mentions as a variable)
fn calls(e: &Expr, out: &mut BTreeSet<String>) {
    match e {
        Expr::Lit(_) | Expr::Quote(_) | Expr::ModVal(_) => {}
        Expr::Var(n) => {
            out.insert(n.clone());
        }
        Expr::Prim(_, a) | Expr::List(a) => a.iter().for_each(|x| calls(x, out)),
        Expr::If(a, b, c) => {
            calls(a, out);
            calls(b, out);
            calls(c, out);
        }
        Expr::Call(n, a, t) => {
            out.insert(n.clone());
            a.iter().for_each(|x| calls(x, out));
            if let Some(t) = t {
                calls(t, out);
            }
        }
        Expr::Let(_, bs, body) => {
            bs.iter().for_each(|(_, x)| calls(x, out));
            calls(body, out);
        }
        Expr::Lambda(_, _, b) => calls(b, out),
        Expr::Apply(a, b) => {
            calls(a, out);
            calls(b, out);
        }
        Expr::MacroCall(n, a) => {
            out.insert(n.clone());
            a.iter().for_each(|x| calls(x, out));
        }
        Expr::QQ(q) => calls_qq(q, out),
    }
}

/// non-inline functions reachable from the main expression through function bodies, inline
/// function bodies and macro templates (NOT through constant definitions: those are evaluated
/// at compile time).  Second result: does anything reachable mention a constant with a computed
/// definition (then reachability through it is not judged).
fn reachable(p: &Program) -> (BTreeSet<String>, bool) {
    let mut bodies: HashMap<String, &Expr> = HashMap::new();
    let mut noninline = BTreeSet::new();
    let mut complex_consts = BTreeSet::new();
    for h in p.helpers.iter() {
        match h {
            Helper::Fun(f) => {
                bodies.insert(f.name.clone(), &f.body);
                if !f.inline {
                    noninline.insert(f.name.clone());
                }
            }
            Helper::Mac(m) => {
                bodies.insert(m.name.clone(), &m.template);
            }
            Helper::ConstComplex(n, _, _) => {
                complex_consts.insert(n.clone());
            }
            _ => {}
        }
    }
    let mut seen: BTreeSet<String> = BTreeSet::new();
    let mut todo: Vec<String> = {
        let mut s = BTreeSet::new();
        calls(&p.body, &mut s);
        s.into_iter().collect()
    };
    let mut touches_complex = false;
    while let Some(n) = todo.pop() {
        if !seen.insert(n.clone()) {
            continue;
        }
        if complex_consts.contains(&n) {
            touches_complex = true;
        }
        if let Some(b) = bodies.get(&n) {
            let mut s = BTreeSet::new();
            calls(b, &mut s);
            todo.extend(s.into_iter());
        }
    }
    (seen.intersection(&noninline).cloned().collect(), touches_complex)
}

fn fun_of<'a>(p: &'a Program, name: &str) -> Option<&'a Fun> {
    p.helpers.iter().find_map(|h| match h {
        Helper::Fun(f) if f.name == name => Some(f),
        _ => None,
    })
}

struct Cell<'a> {
    case: &'a Case,
    d: Dialect,
    build: &'static str,
    optimised: bool,
}

fn judge(out: &mut Out, rng: &mut Rng, cell: &Cell, c: &Compiled, code_sig: Option<&str>) -> bool {
    let case = cell.case;
    let d = cell.d;
    out.count("evaluations");
    out.count(&format!("cell.{}.{}", d.name(), cell.build));
    let ctx = |extra: serde_json::Value| -> serde_json::Value { json!({"engine":"c13","case":case.j(d),"build":cell.build,"detail":extra}) };
    let mut subtrees = HashMap::new();
    collect_hashes(&c.prog, &mut subtrees);
    // the repository's own extraction route
    let prog_sexp = natural_sexp(&c.prog).ok();
    let layout = prog_sexp.clone().and_then(|p| guard(move || extract_program_and_env(p)).ok().flatten());
    let left_env: Option<V> = layout.as_ref().and_then(|(_, e)| sexp_to_v(e.clone()).ok()).and_then(|e| match e {
        // env expression is (q . ENV)
        V::P(h, t) if *h == V::A(vec![1]) => Some((*t).clone()),
        _ => None,
    });
    let mut ok = true;
    let mut named_present: BTreeSet<String> = BTreeSet::new();
    let mut present_codes: Vec<(String, V)> = vec![];
    let mut judged_functions = 0;
    let mut keys: Vec<&String> = c.symbols.keys().collect();
    keys.sort();
    for k in keys {
        if k.len() != 64 || !k.bytes().all(|b| b.is_ascii_hexdigit()) {
            continue;
        }
        let name = &c.symbols[k];
        if is_location_text(name) {
            out.count("entries.location");
            continue;
        }
        out.count("entries.function");
        let h = hex::decode(k).unwrap();
        let code = match subtrees.get(&h) {
            Some(code) => code.clone(),
            None => {
                out.count("entries.function.code_not_in_program");
                continue;
            }
        };
        out.count("entries.function.code_in_program");
        present_codes.push((name.clone(), code.clone()));
        if synthesised(name) {
            // letbinding_$_N / lambda_$_N ...: compiler-made functions; the name has no source twin to run.
            // What can be judged for lambda_$_N: the recorded argument list is ((captures..) parameters..) of some lambda
            // of the source (generated-name suffixes _$_N stripped).
            out.count("entries.function.synthesised_name");
            named_present.insert(name.clone());
            // (cl22 command line builds: the frontend optimiser rewrites capture lists — literal captures become () — so the
            // recorded list is that of the rewritten lambda; not compared there)
            if name.starts_with("lambda_$_") && !(d == Dialect::Cl22 && cell.build.starts_with("cli")) {
                if let Some(at) = c.symbols.get(&format!("{k}_arguments")) {
                    // the optimising dialects may add captures of their own (cse_$_N): those are dropped before comparing
                    let recorded = text_v(&strip_gensym(at)).map(|v| match v {
                        V::P(caps, params) => {
                            let kept: Vec<V> = caps.proper_list().unwrap_or_default().into_iter().filter(|c| *c != V::atom(b"cse")).collect();
                            V::cons(V::list(&kept), (*params).clone())
                        }
                        other => other,
                    });
                    let mut lambdas = vec![];
                    program_lambdas(&case.prog, &mut lambdas);
                    out.count("lambda_argument_lists_compared");
                    if recorded.is_none() || !lambdas.iter().any(|l| Some(l) == recorded.as_ref()) {
                        ok = false;
                        out.violation(json!({"kind":"recorded_argument_list_of_a_lambda_function_is_no_lambda_of_the_source","engine":"c13","case":case.j(d),"build":cell.build,"function":name,"key":k,"recorded":at,
                            "source_lambdas":lambdas.iter().map(|l| l.show()).collect::<Vec<_>>()}));
                    }
                }
            }
            continue;
        }
        if d == Dialect::Classic {
            // the classic table also lists constants under the hash of their value
            let is_const = case.prog.helpers.iter().any(|h| matches!(h, Helper::ConstSimple(n, _, _) | Helper::ConstData(n, _) | Helper::ConstComplex(n, _, _) if n == name));
            let is_fun = fun_of(&case.prog, name).map(|f| !f.inline).unwrap_or(false);
            if is_fun {
                named_present.insert(name.clone());
                out.count("classic.entry_names_a_function_of_the_source");
            } else if is_const {
                out.count("classic.entry_names_a_constant_of_the_source");
            } else {
                ok = false;
                out.violation(ctx(json!({"kind":"entry_names_something_that_is_not_a_function_of_the_source","key":k,"name":name})));
            }
            judged_functions += is_fun as usize;
            continue;
        }
        let f = match fun_of(&case.prog, name) {
            Some(f) => f,
            None => {
                ok = false;
                out.violation(ctx(json!({"kind":"entry_names_something_that_is_not_a_function_of_the_source","key":k,"name":name})));
                continue;
            }
        };
        named_present.insert(name.clone());
        // the recorded argument list is that function's
        match c.symbols.get(&format!("{k}_arguments")) {
            Some(at) => {
                let want = text_v(&f.params.render());
                let got = text_v(at);
                if want.is_none() || got.is_none() || want != got {
                    ok = false;
                    out.violation(json!({"kind":"recorded_argument_list_is_not_the_functions","engine":"c13","case":case.j(d),"build":cell.build,"function":name,"recorded":at,"source":f.params.render()}));
                } else {
                    out.count("arguments_entries_equal_source");
                }
            }
            None => {
                ok = false;
                out.violation(json!({"kind":"function_entry_without_argument_list","engine":"c13","case":case.j(d),"build":cell.build,"function":name,"key":k}));
            }
        }
        // extract through the entry and run
        if d == Dialect::Classic {
            continue; // hash / presence clauses only
        }
        let env = match &left_env {
            Some(e) => e.clone(),
            None => {
                out.count("layout_not_understood");
                continue;
            }
        };
        // repository route: path_to_function + rewrite_in_program
        let (_, envexpr) = layout.clone().unwrap();
        let hh = h.clone();
        let ee = envexpr.clone();
        let callable: Option<V> = guard(move || path_to_function(ee.clone(), &hh).map(|p| rewrite_in_program(p, ee))).ok().flatten().and_then(|s| sexp_to_v(s).ok());
        let in_env = {
            let mut m = HashMap::new();
            collect_hashes(&env, &mut m);
            m.contains_key(&h)
        };
        if in_env && callable.is_none() {
            ok = false;
            out.violation(json!({"kind":"path_to_function_does_not_find_code_that_is_in_the_environment","engine":"c13","case":case.j(d),"build":cell.build,"function":name,"key":k}));
        }
        if has_clo_param(&f.params) {
            out.count("functions_with_closure_parameters_not_run");
            continue;
        }
        let mut compared = 0;
        for _ in 0..3 {
            let args = gen_args(rng, &f.params);
            let want = run_function(&case.prog, name, &args);
            let direct = consensus_run_cap(&code, &V::cons(env.clone(), args.clone()), 2_000_000_000);
            let via = callable.as_ref().map(|p| consensus_run_cap(p, &args, 2_000_000_000));
            if let Some(v) = &via {
                if *v != direct && !(matches!(v, Outcome::CostCap) || matches!(direct, Outcome::CostCap)) && (v.is_val() || direct.is_val()) {
                    ok = false;
                    out.violation(json!({"kind":"extraction_route_and_direct_subtree_disagree","engine":"c13","case":case.j(d),"build":cell.build,"function":name,"args":args.show(),"via_rewrite_in_program":v.show(),"direct":direct.show()}));
                }
            }
            match (&want, &direct) {
                (RefOutcome::Val(w), Outcome::Val(g)) if w == g => compared += 1,
                (RefOutcome::Fail(_), g) if !g.is_val() && !matches!(g, Outcome::CostCap) => compared += 1,
                (RefOutcome::Val(_), Outcome::CostCap) | (RefOutcome::Fail(_), Outcome::CostCap) => out.inconclusive("costcap", json!({"case": case.id})),
                (RefOutcome::Val(w), g) => {
                    ok = false;
                    out.violation(json!({"kind":"code_under_the_entry_does_not_compute_the_named_function","engine":"c13","sig":code_sig,"case":case.j(d),"build":cell.build,"function":name,"key":k,"args":args.show(),"source_gives":w.show(),"extracted_code_gives":g.show(),"code":trunc(&code.show(),300)}));
                }
                (RefOutcome::Fail(_), _) => {
                    // as in C01: where the source function fails nothing is claimed (optimising dialects drop unused
                    // bindings whose evaluation would fail)
                    out.count("source_function_fails_not_compared");
                }
                _ => out.count("reference_opaque"),
            }
        }
        if compared > 0 {
            judged_functions += 1;
            out.add("function_runs_compared", compared);
        }
    }
    // presence clause, builds without optimisation
    if !cell.optimised {
        let (reach, touches_complex) = reachable(&case.prog);
        for fname in reach.iter() {
            out.count("presence.reachable_functions");
            if named_present.contains(fname) {
                out.count("presence.entry_and_code_present");
            } else if touches_complex {
                out.count("presence.not_judged_constant_definition_involved");
            } else {
                // The table is keyed by code hash, so two functions compiled to identical code share one entry
                // (the later name wins).  The function is present if some entry's code behaves as this function
                // does on generated arguments.
                let f = fun_of(&case.prog, fname).unwrap();
                let shared = match (&left_env, has_clo_param(&f.params)) {
                    (Some(env), false) => {
                        let samples: Vec<(V, RefOutcome)> = (0..3).map(|_| gen_args(rng, &f.params)).map(|a| { let r = run_function(&case.prog, fname, &a); (a, r) }).collect();
                        present_codes.iter().find(|(_, code)| {
                            samples.iter().all(|(a, r)| match (r, consensus_run_cap(code, &V::cons(env.clone(), a.clone()), 2_000_000_000)) {
                                (RefOutcome::Val(w), Outcome::Val(g)) => *w == g,
                                (RefOutcome::Fail(_), g) => !g.is_val(),
                                _ => false,
                            })
                        }).map(|(n, _)| n.clone())
                    }
                    _ => None,
                };
                if let Some(other) = shared {
                    out.count("presence.shares_an_entry_with_identical_code");
                    let _ = other;
                } else if has_clo_param(&f.params) {
                    // cannot be run from outside (a closure cannot be supplied), so a shared entry cannot be told from a missing one
                    out.count("presence.not_judged_closure_parameter");
                } else {
                    ok = false;
                    let has_entry = c.symbols.values().any(|v| v == fname);
                    out.violation(json!({"kind":"reachable_function_without_entry_whose_code_occurs_in_the_program","engine":"c13","case":case.j(d),"build":cell.build,"function":fname,"table_has_an_entry_with_that_name":has_entry,"program":trunc(&c.prog.show(),400)}));
                }
            }
        }
    }
    if ok && judged_functions > 0 {
        out.nontrivial(fnv_s(&format!("{}|{}|{}", case.structural_hash(), d.name(), cell.build)));
        if out.samples.len() < 3 {
            out.sample(json!({"case": case.id, "dialect": d.name(), "build": cell.build, "functions_judged": judged_functions, "entries": c.symbols.iter().filter(|(_, v)| !is_location_text(v)).take(8).collect::<Vec<_>>()}));
        }
    }
    ok
}

fn classic_via_binary(cfg: &Cfg, text: &str, i: usize) -> Option<Compiled> {
    let bins = std::env::var("VH_REPO_BINS").ok()?;
    let src = format!("{}/c13-{}-{}.clsp", cfg.outdir, cfg.shard, i);
    let sym = format!("{}/c13-{}-{}.sym", cfg.outdir, cfg.shard, i);
    std::fs::write(&src, text).ok()?;
    let _ = std::fs::remove_file(&sym);
    let o = std::process::Command::new(format!("{bins}/run")).arg("-d").arg("--symbol-output-file").arg(&sym).arg(&src).current_dir(&cfg.outdir).output().ok()?;
    let hexs = String::from_utf8_lossy(&o.stdout).trim().to_string();
    let prog = hex::decode(&hexs).ok().and_then(|b| V::from_ser(&b))?;
    let symbols: HashMap<String, String> = std::fs::read_to_string(&sym).ok().and_then(|t| serde_json::from_str(&t).ok()).unwrap_or_default();
    let _ = std::fs::remove_file(&src);
    let _ = std::fs::remove_file(&sym);
    Some(Compiled { prog, symbols, text: None })
}

pub fn run(cfg: &Cfg) -> i32 {
    let mut out = Out::new("C13", cfg);
    let shard = cfg.shard as u64;
    let nprog: usize = std::env::var("VH_NPROG").ok().and_then(|x| x.parse().ok()).unwrap_or(cfg.pick(160, 3000));
    let mut rng = Rng::derive(cfg.seed, 13, shard);
    let mut gcfg = GenCfg::modern();
    gcfg.max_helpers = 8;
    gcfg.allow_zero_led = false;
    for i in out.resume_from..nprog {
        out.checkpoint(i);
        let classic_turn = i % 7 == 6;
        let case = if classic_turn { case_at(cfg.seed.wrapping_add(13_500_000), shard, i as u64, &GenCfg::classic()) } else { case_at(cfg.seed.wrapping_add(13_000_000), shard, i as u64, &gcfg) };
        if classic_turn {
            if !supported(&case.prog, Dialect::Classic) {
                continue;
            }
            let id = format!("{}/classic", case.id);
            if !out.begin(&id) {
                continue;
            }
            let text = case.text(Dialect::Classic);
            // classic tables are produced by the command line tool (run --symbol-output-file), so the real binary is used
            match classic_via_binary(cfg, &text, i) {
                Some(c) => {
                    judge(&mut out, &mut rng, &Cell { case: &case, d: Dialect::Classic, build: "classic", optimised: true /* the classic compiler always runs its optimiser over the result */ }, &c, None);
                }
                None => out.count("classic_not_compiled_or_no_binary"),
            }
            out.end(&id);
            continue;
        }
        let d = MODERN[i % 6];
        if !supported(&case.prog, d) {
            continue;
        }
        let id = format!("{}/{}", case.id, d.name());
        if !out.begin(&id) {
            continue;
        }
        let text = case.text(d);
        // library route, optimiser off / on; the CLI's own derivation (adds location entries) with and without -O
        let builds: [(&'static str, bool, Result<Compiled, CErr>); 4] = [
            ("library", false, compile_modern_explicit(&text, "*c13*", &[], &ModernOpts { optimize: false, frontend_opt: false, post_opt: false })),
            ("library-O", true, compile_modern_explicit(&text, "*c13*", &[], &ModernOpts { optimize: true, frontend_opt: false, post_opt: false })),
            ("cli", false, compile_cli_modern(&text, None, &[], false)),
            ("cli-O", true, compile_cli_modern(&text, None, &[], true)),
        ];
        let mut library_clean = false;
        for (label, opt, r) in builds.iter() {
            if let Ok(c) = r {
                // dialects from cl23 on always run their optimiser; cl22's CLI build runs the frontend optimiser
                let optimised = *opt || d.stepping() >= 23 || (d == Dialect::Cl22 && label.starts_with("cli"));
                // listed finding (C01 cl22-cli-frontend-optimiser): with the frontend optimiser, which the command line
                // switches on for cl22, function bodies are miscompiled.  A wrong function result in such a build is
                // attributed to it only when the same program's build with that optimiser off was judged clean.
                let sig = if d == Dialect::Cl22 && label.starts_with("cli") && library_clean {
                    Some("cl22:cli-frontend-optimiser")
                } else if d == Dialect::StrictCl21 && label.ends_with("-O") && library_clean {
                    // listed finding (C02 strict-cl21-optimise-flag): with the optimise flag *strict-cl-21* programs run their
                    // conditionals in the environment 64; same counterfactual (the build without the flag is clean)
                    Some("c02:strict-cl21-optimise-flag")
                } else {
                    None
                };
                let ok = judge(&mut out, &mut rng, &Cell { case: &case, d, build: label, optimised }, c, sig);
                if *label == "library" {
                    library_clean = ok;
                }
            } else {
                out.count("does_not_compile");
            }
        }
        out.end(&id);
    }
    let bad = out.get("violations");
    out.finish(cfg);
    if bad > 0 { 1 } else { 0 }
}
