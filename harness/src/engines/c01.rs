// C01 — compiled modern Chialisp computes what the source means.
use serde_json::json;

use crate::common::*;
use crate::gen::*;
use crate::progs::*;
use crate::refi::*;
use crate::repo::*;

pub struct Build {
    pub dialect: Dialect,
    pub result: Result<Compiled, CErr>,
}

pub fn build_cli(case: &Case, d: Dialect, dash_o: bool) -> Build {
    let text = case.text(d);
    if std::env::var("VH_TRACE").is_ok() {
        eprintln!("BEGIN {} {}\n{}", case.id, d.name(), text);
    }
    Build { dialect: d, result: compile_cli_modern(&text, None, &[], dash_o) }
}

/// Judge one (case, dialect) cell against the reference.  Returns the number of arguments compared.
pub fn judge_cell(out: &mut Out, pid: &str, case: &Case, b: &Build, label: &str) -> usize {
    judge_cell_sig(out, pid, case, b, label, None)
}

/// `sig_override`: the cell is a build already known to be affected by a listed finding whose
/// counterfactual (the same program built without the affected feature) was judged clean.
pub fn judge_cell_sig(out: &mut Out, pid: &str, case: &Case, b: &Build, label: &str, sig_override: Option<&str>) -> usize {
    let d = b.dialect;
    out.count("evaluations");
    out.count(&format!("cell.{}", d.name()));
    // Legacy integer mode (dialects before cl23.1) + a literal that is not a canonical integer
    // encoding: a failure is attributed to the documented legacy-int finding only if the SAME
    // program with those literals made canonical passes completely (counterfactual re-run).
    let legacy_candidate = !d.int_fix() && case.has("zero_led_literal") && sig_override.is_none();
    let explicit22 = label != "cli" && d == Dialect::Cl22;
    let mksig = |legacy: bool| -> Option<String> {
        if let Some(s) = sig_override {
            Some(s.to_string())
        } else if legacy {
            Some("legacy-int-mode:zero-led-literal".to_string())
        } else {
            None
        }
    };
    match &b.result {
        Err(e) => {
            if case.ref_values() > 0 {
                let mut sig = mksig(legacy_candidate && counterfactual_clean(case, d, explicit22));
                // listed finding: the cl23+ CSE pass hoists a repeated subexpression that uses an
                // assign-bound variable out of the assign form ("Unbound use of vN_$_M").  Attributed
                // only for exactly that error, in an optimising dialect, for a program with assign
                // forms, and only when the same program compiles and is correct with the optimiser off.
                if sig.is_none() && sig_override.is_none() && d.stepping() >= 23 {
                    let m = e.msg();
                    let is_unbound_assign_var = m.contains("Unbound use of v") && m.contains("_$_") && m.contains("as a variable name");
                    let has_assign = case.has("assign") || case.has("assign-inline") || case.has("assign-lambda");
                    if is_unbound_assign_var && has_assign && unoptimised_build_clean(case, d) {
                        sig = Some("cl23-cse:assign-bound-variable-hoisted".to_string());
                    }
                }
                out.violation(json!({"kind":"does_not_compile_though_source_has_a_value","engine":pid,"sig":sig,"build":label,"case":case.j(d),
                    "error":trunc(&e.msg(),400),"args":case.args.iter().map(|a| a.show()).collect::<Vec<_>>(),
                    "reference":case.refs.iter().map(|r| format!("{r:?}")).map(|s| trunc(&s,100)).collect::<Vec<_>>()}));
            } else {
                out.count("compile_error_without_reference_value");
            }
            0
        }
        Ok(c) => {
            let mut compared = 0;
            for (a, r) in case.args.iter().zip(case.refs.iter()) {
                match r {
                    RefOutcome::Val(v) => {
                        let got = consensus_run(&c.prog, a);
                        match &got {
                            Outcome::Val(g) if g == v => {
                                compared += 1;
                                out.count("agree");
                            }
                            Outcome::CostCap => out.inconclusive("costcap", json!({"case":case.id})),
                            _ => {
                                let sig = mksig(legacy_candidate && counterfactual_clean(case, d, explicit22));
                                out.violation(json!({"kind":"compiled_program_differs_from_source_meaning","engine":pid,"sig":sig,"build":label,"case":case.j(d),
                                    "args":a.show(),"args_hex":a.hex(),"expected":v.show(),"got":got.show(),"compiled":trunc(&c.prog.show(),600)}));
                            }
                        }
                    }
                    RefOutcome::Fail(_) => out.count("reference_fails"),
                    RefOutcome::Fuel => out.inconclusive("reference_fuel", json!({"case":case.id})),
                    RefOutcome::Opaque(_) => out.count("reference_opaque"),
                    RefOutcome::Harness(m) => {
                        out.count("harness_errors");
                        out.inconclusive("harness", json!({"case":case.id,"msg":m,"source":case.text(d)}));
                    }
                }
            }
            compared
        }
    }
}

/// Random access to the i-th generated case of a shard (so that replay and shrinking can regenerate it).
pub fn case_at(seed: u64, shard: u64, i: u64, gcfg: &GenCfg) -> Case {
    let mut crng = Rng::derive(seed.wrapping_mul(1_000_003).wrapping_add(17), shard, i);
    make_case(&mut crng, gcfg, format!("s{}-{}-{}", seed, shard, i), 5)
}

/// Does the real `run` binary die by a signal (or, with `hang`, exceed 20 s) on this source?
pub fn crashes(text: &str, hang: bool) -> bool {
    use std::os::unix::process::ExitStatusExt;
    let path = format!("/tmp/vh-crash-{}.clsp", std::process::id());
    std::fs::write(&path, text).expect("write");
    let mut child = std::process::Command::new("/verif/target/repo-bins/release/run")
        .arg(&path)
        .current_dir("/tmp")
        .stdout(std::process::Stdio::null())
        .stderr(std::process::Stdio::null())
        .spawn()
        .expect("spawn run");
    let t0 = std::time::Instant::now();
    loop {
        match child.try_wait().expect("wait") {
            Some(st) => return !hang && st.signal().is_some(),
            None => {
                if t0.elapsed().as_secs() > 20 {
                    let _ = child.kill();
                    let _ = child.wait();
                    return hang;
                }
                std::thread::sleep(std::time::Duration::from_millis(5));
            }
        }
    }
}

fn err_class(m: &str) -> String {
    let m = m.split(": ").last().unwrap_or(m);
    m.chars().filter(|c| !c.is_ascii_digit()).take(28).collect()
}

/// `vh c01 --replay-case s<seed>-<shard>-<i> <dialect> [--shrink]`
pub fn replay_case(cfg: &Cfg) -> i32 {
    let id = &cfg.rest[1];
    let dname = &cfg.rest[2];
    let do_shrink = cfg.rest.iter().any(|x| x == "--shrink");
    let dash_o = cfg.rest.iter().any(|x| x == "-O");
    let parts: Vec<u64> = id.trim_start_matches('s').split('-').map(|x| x.parse().unwrap()).collect();
    let gcfg = if cfg.rest.iter().any(|x| x == "--classic") { GenCfg::classic() } else { GenCfg::modern() };
    let case = case_at(parts[0], parts[1], parts[2], &gcfg);
    let d = *[Dialect::Classic, Dialect::Cl21, Dialect::StrictCl21, Dialect::Cl22, Dialect::Cl23, Dialect::Cl231, Dialect::Cl24].iter().find(|d| d.name() == dname).expect("dialect");
    let compile = |p: &Program| -> Result<Compiled, CErr> {
        let text = render_program(p, d, false);
        if d == Dialect::Classic {
            compile_lib(&text, "*replay*", &[], true, false)
        } else if d == Dialect::Cl22 && !cfg.rest.iter().any(|x| x == "--cli") {
            // the verdict-bearing cl22 build is the one with the frontend optimiser off
            compile_modern_explicit(&text, "*command*", &[], &ModernOpts { optimize: false, frontend_opt: false, post_opt: false })
        } else {
            compile_cli_modern(&text, None, &[], dash_o)
        }
    };
    println!("{}", case.text(d));
    if cfg.rest.iter().any(|x| x == "--print") {
        return 0;
    }
    if cfg.rest.iter().any(|x| x == "--shrink-crash") {
        // reduce while the real `run` binary dies by a signal (abort / stack overflow) or hangs
        let want_hang = cfg.rest.iter().any(|x| x == "--hang");
        let mut pred = |p: &Program| -> bool {
            if !supported(p, d) {
                return false;
            }
            if matches!(run_program(p, &case.args[0]), RefOutcome::Harness(_)) {
                return false;
            }
            crashes(&render_program(p, d, false), want_hang)
        };
        if !pred(&case.prog) {
            println!("crash not reproduced in a child process");
            return 0;
        }
        let small = crate::shrink::shrink(&case.prog, &mut pred, 3000);
        println!("---- shrunk crash ({} -> {} nodes)", crate::shrink::size(&case.prog), crate::shrink::size(&small));
        println!("{}", render_program(&small, d, false));
        return 1;
    }
    // what fails?
    let built = compile(&case.prog);
    let mut failing: Option<(V, String)> = None;
    match &built {
        Err(e) => {
            println!("compile error: {}", e.msg());
            if let Some((a, _)) = case.args.iter().zip(case.refs.iter()).find(|(_, r)| matches!(r, RefOutcome::Val(_))) {
                failing = Some((a.clone(), format!("E:{}", err_class(&e.msg()))));
            }
        }
        Ok(c) => {
            for (a, r) in case.args.iter().zip(case.refs.iter()) {
                if let RefOutcome::Val(v) = r {
                    let got = consensus_run(&c.prog, a);
                    if got != Outcome::Val(v.clone()) {
                        println!("args {} expected {} got {}", a.show(), v.show(), got.show());
                        failing = Some((a.clone(), "V".to_string()));
                        break;
                    }
                }
            }
        }
    }
    let (arg, class) = match failing {
        Some(x) => x,
        None => {
            println!("no failure reproduced");
            return 0;
        }
    };
    if do_shrink {
        let mut pred = |p: &Program| -> bool {
            if !supported(p, d) {
                return false;
            }
            match run_program(p, &arg) {
                RefOutcome::Val(v) => match compile(p) {
                    Err(e) => class.starts_with("E:") && format!("E:{}", err_class(&e.msg())) == class,
                    Ok(c) => class == "V" && consensus_run(&c.prog, &arg) != Outcome::Val(v),
                },
                _ => false,
            }
        };
        let small = crate::shrink::shrink(&case.prog, &mut pred, 4000);
        println!("---- shrunk ({} -> {} nodes), failing class {} on args {}", crate::shrink::size(&case.prog), crate::shrink::size(&small), class, arg.show());
        println!("{}", render_program(&small, d, false));
        println!("reference: {:?}", run_program(&small, &arg));
        match compile(&small) {
            Ok(c) => println!("compiled: {}\nrun: {}", c.prog.show(), consensus_run(&c.prog, &arg).show()),
            Err(e) => println!("compile error: {}", e.msg()),
        }
    }
    1
}

/// Does the program with its non-canonical literals made canonical compile and agree with the
/// reference on every argument tree?
pub fn counterfactual_clean(case: &Case, d: Dialect, explicit_cl22: bool) -> bool {
    let p2 = neutralize_zero_led(&case.prog);
    let text = render_program(&p2, d, false);
    let built = if explicit_cl22 {
        compile_modern_explicit(&text, "*command*", &[], &ModernOpts { optimize: false, frontend_opt: false, post_opt: false })
    } else {
        compile_cli_modern(&text, None, &[], false)
    };
    let c = match built {
        Ok(c) => c,
        Err(_) => return false,
    };
    let mut compared = 0;
    for a in case.args.iter() {
        match run_program(&p2, a) {
            RefOutcome::Val(v) => {
                if consensus_run(&c.prog, a) != Outcome::Val(v) {
                    return false;
                }
                compared += 1;
            }
            _ => {}
        }
    }
    compared > 0
}

/// The same program and dialect with the optimiser switched off: compiles and agrees with the
/// reference on every argument tree?
pub fn unoptimised_build_clean(case: &Case, d: Dialect) -> bool {
    let text = case.text(d);
    let c = match compile_modern_explicit(&text, "*command*", &[], &ModernOpts { optimize: false, frontend_opt: false, post_opt: false }) {
        Ok(c) => c,
        Err(_) => return false,
    };
    let mut compared = 0;
    for (a, r) in case.args.iter().zip(case.refs.iter()) {
        if let RefOutcome::Val(v) = r {
            if consensus_run(&c.prog, a) != Outcome::Val(v.clone()) {
                return false;
            }
            compared += 1;
        }
    }
    compared > 0
}

/// Build and judge one (case, dialect) cell the way C01 does.  For cl22 the command line derives
/// `frontend_opt = true`, which is a listed known finding (main-level `if` branches are compiled
/// in an empty environment); the verdict-bearing cl22 build is the one with the frontend optimiser
/// off, and the CLI build is attributed to the finding only when that counterfactual is clean.
pub fn build_and_judge(out: &mut Out, pid: &str, case: &Case, d: Dialect) -> usize {
    if d == Dialect::Cl22 {
        let text = case.text(d);
        let before = out.get("violations");
        let explicit = Build { dialect: d, result: compile_modern_explicit(&text, "*command*", &[], &ModernOpts { optimize: false, frontend_opt: false, post_opt: false }) };
        let n = judge_cell(out, pid, case, &explicit, "cl22-frontend-opt-off");
        let clean = out.get("violations") == before;
        let cli = build_cli(case, d, false);
        judge_cell_sig(out, pid, case, &cli, "cli", if clean { Some("cl22:cli-frontend-optimiser") } else { None });
        n
    } else {
        let b = build_cli(case, d, false);
        judge_cell(out, pid, case, &b, "cli")
    }
}

pub fn note_case(out: &mut Out, case: &Case, compared: usize) {
    for f in case.features.iter() {
        out.seen("features", f);
    }
    if compared > 0 && case.uses_abstraction() && case.distinct_ref_values() >= 2 {
        out.nontrivial(case.structural_hash());
    }
}

pub fn run(cfg: &Cfg) -> i32 {
    if cfg.rest.first().map(|x| x == "--replay-case").unwrap_or(false) {
        return replay_case(cfg);
    }
    let mut out = Out::new("C01", cfg);
    let shard = cfg.shard as u64;
    let gcfg = GenCfg::modern();

    // unit space: first the parameter sweep (N = 1..40 parameters x 3 shape classes x 4 bodies,
    // every dialect), then the generated programs
    let mut sweep: Vec<(usize, usize, usize)> = vec![];
    let mut k = 0u64;
    for n in 1..=40usize {
        for shape in 0..3usize {
            for which in 0..4usize {
                k += 1;
                if k % (cfg.nshards as u64) == shard {
                    sweep.push((n, shape, which));
                }
            }
        }
    }
    let nprog: usize = std::env::var("VH_NPROG").ok().and_then(|x| x.parse().ok()).unwrap_or(cfg.pick(350, 3000));
    let total = sweep.len() + nprog;
    for u in out.resume_from..total {
        out.checkpoint(u);
        if u < sweep.len() {
            let (n, shape, which) = sweep[u];
            let mut srng = Rng::derive(cfg.seed, 100 + n as u64, (shape * 4 + which) as u64);
            let prog = param_sweep_program(&mut srng, n, shape, which);
            let mut ctr = 0;
            let a1 = distinct_args(&prog.params, &mut ctr);
            let a2 = distinct_args(&prog.params, &mut ctr);
            let features = program_features(&prog);
            let refs = vec![run_program(&prog, &a1), run_program(&prog, &a2)];
            let case = Case { id: format!("sweep-n{n}-s{shape}-w{which}"), prog, features, args: vec![a1, a2], refs };
            let mut compared = 0;
            for d in MODERN.iter() {
                let cid = format!("{}/{}", case.id, d.name());
                if !out.begin(&cid) {
                    continue;
                }
                compared += build_and_judge(&mut out, "c01", &case, *d);
                out.end(&cid);
            }
            out.seen("sweep_param_counts", &format!("{n:02}"));
            if compared > 0 {
                out.nontrivial(case.structural_hash());
            }
            continue;
        }
        let i = u - sweep.len();
        let case = case_at(cfg.seed, shard, i as u64, &gcfg);
        let mut compared = 0;
        // each program in two dialects (round robin) in quick, all six in thorough
        let ds: Vec<Dialect> = if cfg.thorough() { MODERN.to_vec() } else { vec![MODERN[i % 6], MODERN[(i + 1 + (i / 6) % 5) % 6]] };
        for d in ds {
            if !supported(&case.prog, d) {
                out.count("cell_skipped_unsupported");
                continue;
            }
            let cid = format!("{}/{}", case.id, d.name());
            if !out.begin(&cid) {
                continue;
            }
            compared += build_and_judge(&mut out, "c01", &case, d);
            out.end(&cid);
        }
        note_case(&mut out, &case, compared);
        if i < 2 && cfg.shard == 0 {
            out.sample(json!({"source": case.text(Dialect::Cl23), "args": case.args.iter().map(|a| a.show()).collect::<Vec<_>>(), "reference": case.refs.iter().map(|r| trunc(&format!("{r:?}"), 80)).collect::<Vec<_>>()}));
        }
    }
    let bad = out.get("violations");
    out.finish(cfg);
    if bad > 0 { 1 } else { 0 }
}
