// C09 — printed values and programs re-read to the identical value in both syntaxes.
use serde_json::json;

use chialisp::compiler::clvm::NewStyleIntConversion;
use chialisp::compiler::sexp::parse_sexp;
use chialisp::compiler::srcloc::Srcloc;

use crate::common::*;
use crate::engines::c07::{interesting_atom, interesting_tree};
use crate::repo::*;

fn check_classic(out: &mut Out, stratum: &str, x: &V) {
    for ver in 0..=2usize {
        out.count("evaluations");
        out.count(&format!("stratum.{stratum}.classic"));
        match classic_disassemble(x, Some(ver)) {
            Err(p) => out.violation(json!({"kind":"disassemble_panic","value_hex":x.hex(),"version":ver,"panic":p})),
            Ok(text) => match classic_assemble(&text) {
                Ok(back) if &back == x => {
                    out.nontrivial(fnv(&x.ser()) ^ (ver as u64 + 1));
                }
                Ok(back) => out.violation(json!({"kind":"classic_text_reassembles_to_other_value","sig_hint":"","value_hex":x.hex(),"version":ver,"text":trunc(&text,200),"back_hex":trunc(&back.hex(),200)})),
                Err(m) => out.violation(json!({"kind":"classic_text_does_not_assemble","value_hex":x.hex(),"version":ver,"text":trunc(&text,200),"error":trunc(&m,200)})),
            },
        }
    }
}

fn check_modern(out: &mut Out, stratum: &str, x: &V) {
    out.count("evaluations");
    out.count(&format!("stratum.{stratum}.modern"));
    let _m = NewStyleIntConversion::new(true);
    let rich = match natural_sexp(x) {
        Ok(r) => r,
        Err(m) => {
            out.violation(json!({"kind":"conversion_error","value_hex":x.hex(),"error":m}));
            return;
        }
    };
    let text = match guard(|| rich.to_string()) {
        Ok(t) => t,
        Err(p) => {
            out.violation(json!({"kind":"modern_print_panic","value_hex":x.hex(),"panic":p}));
            return;
        }
    };
    let t2 = text.clone();
    match guard(move || parse_sexp(Srcloc::start("*c09*"), t2.bytes())) {
        Err(p) => out.violation(json!({"kind":"modern_reader_panic","text":trunc(&text,200),"panic":p})),
        Ok(Err(e)) => out.violation(json!({"kind":"modern_text_not_readable","value_hex":x.hex(),"text":trunc(&text,200),"error":e.1})),
        Ok(Ok(forms)) => {
            if forms.len() != 1 {
                out.violation(json!({"kind":"modern_text_reads_as_several_forms","value_hex":x.hex(),"text":trunc(&text,200),"forms":forms.len()}));
            } else {
                match sexp_to_v(forms[0].clone()) {
                    Ok(back) if &back == x => {}
                    Ok(back) => out.violation(json!({"kind":"modern_text_rereads_to_other_value","value_hex":x.hex(),"text":trunc(&text,200),"back_hex":trunc(&back.hex(),200)})),
                    Err(m) => out.violation(json!({"kind":"conversion_error","text":trunc(&text,200),"error":m})),
                }
            }
        }
    }
    match classic_assemble(&text) {
        Ok(back) if &back == x => {
            out.nontrivial(fnv(&x.ser()) ^ 0x99);
        }
        Ok(back) => out.violation(json!({"kind":"modern_text_assembles_to_other_value","value_hex":x.hex(),"text":trunc(&text,200),"back_hex":trunc(&back.hex(),200)})),
        Err(m) => out.violation(json!({"kind":"modern_text_does_not_assemble","value_hex":x.hex(),"text":trunc(&text,200),"error":trunc(&m,200)})),
    }
}

fn contexts(a: &V) -> Vec<V> {
    vec![
        a.clone(),
        V::list_with_tail(&[a.clone(), V::int(1)], a.clone()), // head + improper tail
        V::list(&[V::int(2), a.clone()]),                       // non-head
        V::list(&[V::list(&[a.clone()]), a.clone()]),           // head of a nested list
    ]
}

const ALPHA64: &[u8] = b"\x00\x01\x02\x07\x08\x09\x0a\x0d\x1f\x20!\"#'()*+-./019:;<=>?@AZ\\_`aqxz{|}~\x7f\x80\x81\xbf\xc0\xfe\xff$%&,[]^QX";

pub fn run(cfg: &Cfg) -> i32 {
    let mut out = Out::new("C09", cfg);
    let shard = cfg.shard as u64;
    let ns = cfg.nshards as u64;
    // A. exhaustive atoms of length 0..2 (and 3 over a 64-symbol alphabet quick / all thorough)
    let mut total = 0u64;
    for len in 0..=2usize {
        let count = 256u64.pow(len as u32);
        total += count;
        let mut i = shard;
        while i < count {
            let mut b = vec![0u8; len];
            let mut k = i;
            for p in (0..len).rev() {
                b[p] = (k & 0xff) as u8;
                k >>= 8;
            }
            for c in contexts(&V::A(b)) {
                check_classic(&mut out, "atoms_exhaustive", &c);
                check_modern(&mut out, "atoms_exhaustive", &c);
            }
            i += ns;
        }
    }
    let alpha: Vec<u8> = if cfg.thorough() { (0..=255u8).collect() } else { ALPHA64.to_vec() };
    let n3 = (alpha.len() as u64).pow(3);
    total += n3;
    let mut i = shard;
    while i < n3 {
        let k = alpha.len() as u64;
        let b = vec![alpha[(i / (k * k)) as usize], alpha[((i / k) % k) as usize], alpha[(i % k) as usize]];
        let a = V::A(b);
        let cs = contexts(&a);
        let pick = (i / ns) as usize % cs.len();
        check_classic(&mut out, "atoms3", &cs[0]);
        check_modern(&mut out, "atoms3", &cs[0]);
        if pick != 0 {
            check_classic(&mut out, "atoms3", &cs[pick]);
            check_modern(&mut out, "atoms3", &cs[pick]);
        }
        i += ns;
    }
    out.extra.insert("atoms_enumerated_total".into(), json!(total));
    out.extra.insert("len3_alphabet".into(), json!(alpha.len()));
    // B. random long atoms of every printable class and trees of them
    let mut rng = Rng::derive(cfg.seed, 9, shard);
    for i in 0..cfg.pick(15_000, 150_000) {
        let t = if i % 2 == 0 { interesting_tree(&mut rng, 4) } else { contexts(&V::A(interesting_atom(&mut rng)))[rng.below(4)].clone() };
        check_classic(&mut out, "random", &t);
        check_modern(&mut out, "random", &t);
        if i < 3 && cfg.shard == 0 {
            out.sample(json!({"value": trunc(&t.show(), 160), "classic_text": classic_disassemble(&t, None).ok().map(|s| trunc(&s, 160))}));
        }
    }
    let bad = out.get("violations");
    out.finish(cfg);
    if bad > 0 { 1 } else { 0 }
}
