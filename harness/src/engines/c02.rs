// C02 — optimisation switches and optimising dialects never change results.
use std::collections::BTreeSet;

use serde_json::json;

use crate::common::*;
use crate::engines::c01::{case_at, judge_cell_sig, Build};
use crate::gen::*;
use crate::progs::*;
use crate::repo::*;

#[derive(Clone, Debug)]
pub struct OptSet {
    pub label: &'static str,
    pub kind: u8, // 0 explicit, 1 library path, 2 cli -O
    pub mo: ModernOpts,
}

pub fn option_sets() -> Vec<OptSet> {
    let m = |optimize, frontend_opt, post_opt| ModernOpts { optimize, frontend_opt, post_opt };
    vec![
        OptSet { label: "off", kind: 0, mo: m(false, false, false) },
        OptSet { label: "optimize", kind: 0, mo: m(true, false, false) },
        OptSet { label: "frontend_opt", kind: 0, mo: m(false, true, false) },
        OptSet { label: "optimize+frontend_opt", kind: 0, mo: m(true, true, false) },
        OptSet { label: "post_opt", kind: 0, mo: m(false, false, true) },
        OptSet { label: "optimize+post_opt", kind: 0, mo: m(true, false, true) },
        OptSet { label: "library_path", kind: 1, mo: m(true, false, true) },
        OptSet { label: "cli_dash_O", kind: 2, mo: m(true, false, true) },
    ]
}

pub fn build_with(text: &str, d: Dialect, os: &OptSet) -> Build {
    let result = match os.kind {
        0 => compile_modern_explicit(text, "*command*", &[], &os.mo),
        1 => compile_lib(text, "*command*", &[], true, false),
        _ => compile_cli_modern(text, None, &[], true),
    };
    Build { dialect: d, result }
}

/// Option-set x dialect combinations that are listed known findings *as a whole*: every failure of
/// such a build is attributed to the finding provided the all-switches-off build of the same
/// program in the same dialect is clean.
pub fn known_broken_combo(d: Dialect, os: &OptSet) -> Option<&'static str> {
    let effective_fopt = match os.kind {
        0 => os.mo.frontend_opt,
        // the library path and the CLI derive frontend_opt = (stepping == 22)
        _ => d == Dialect::Cl22,
    };
    if effective_fopt && d.stepping() <= 22 {
        return Some("c02:frontend-optimiser-stepping-le-22");
    }
    if d == Dialect::StrictCl21 && os.mo.optimize {
        return Some("c02:strict-cl21-optimise-flag");
    }
    None
}

pub static SLOW_MS: std::sync::atomic::AtomicU64 = std::sync::atomic::AtomicU64::new(4000);

pub fn run_case(out: &mut Out, case: &Case, ds: &[Dialect]) {
    let sets = option_sets();
    let mut compared_total = 0;
    let mut distinct_bytes: BTreeSet<Vec<u8>> = BTreeSet::new();
    for d in ds {
        if !supported(&case.prog, *d) {
            continue;
        }
        let text = case.text(*d);
        // the all-off build first: it is the counterfactual for the switch-specific findings
        let before = out.get("violations");
        let cid0 = format!("{}/{}/off", case.id, d.name());
        if !out.begin(&cid0) {
            continue;
        }
        let t0 = std::time::Instant::now();
        let b0 = build_with(&text, *d, &sets[0]);
        compared_total += judge_cell_sig(out, "c02", case, &b0, "off", None);
        out.end(&cid0);
        // a program whose plain build already takes this long would take minutes over all switch sets: left to the thorough tier
        let slow_ms: u128 = std::env::var("VH_C02_SLOW_MS").ok().and_then(|x| x.parse().ok()).unwrap_or(SLOW_MS.load(std::sync::atomic::Ordering::SeqCst) as u128);
        if t0.elapsed().as_millis() > slow_ms {
            out.inconclusive("slow_program_other_switch_sets_not_built", json!({"case": case.id, "dialect": d.name(), "ms": t0.elapsed().as_millis() as u64}));
            continue;
        }
        let off_clean = out.get("violations") == before;
        if let Ok(c) = &b0.result {
            distinct_bytes.insert(c.prog.ser());
        }
        for os in sets.iter().skip(1) {
            let cid = format!("{}/{}/{}", case.id, d.name(), os.label);
            if !out.begin(&cid) {
                continue;
            }
            let b = build_with(&text, *d, os);
            let sig = if off_clean { known_broken_combo(*d, os) } else { None };
            out.count(&format!("optset.{}", os.label));
            compared_total += judge_cell_sig(out, "c02", case, &b, os.label, sig);
            if let Ok(c) = &b.result {
                distinct_bytes.insert(c.prog.ser());
            }
            out.end(&cid);
        }
    }
    for f in case.features.iter() {
        out.seen("features", f);
    }
    // non-trivial: >= 2 builds with different bytes, compared on at least one argument tree
    if compared_total > 0 && distinct_bytes.len() >= 2 {
        out.nontrivial(case.structural_hash());
    }
}

pub fn run(cfg: &Cfg) -> i32 {
    let mut out = Out::new("C02", cfg);
    let shard = cfg.shard as u64;
    let gcfg = GenCfg::modern();
    let nprog: usize = std::env::var("VH_NPROG").ok().and_then(|x| x.parse().ok()).unwrap_or(cfg.pick(90, 600));
    SLOW_MS.store(cfg.pick(4000, 20000), std::sync::atomic::Ordering::SeqCst);
    for i in out.resume_from..nprog {
        out.checkpoint(i);
        // a different slice of the generator's sequence than C01 uses
        let case = case_at(cfg.seed.wrapping_add(7_000_000), shard, i as u64, &gcfg);
        let ds: Vec<Dialect> = if cfg.thorough() { MODERN.to_vec() } else { vec![MODERN[i % 6], MODERN[(i + 3) % 6]] };
        run_case(&mut out, &case, &ds);
        if i < 1 && cfg.shard == 0 {
            out.sample(json!({"source": case.text(Dialect::Cl23), "option_sets": option_sets().iter().map(|o| o.label).collect::<Vec<_>>(), "args": case.args.iter().map(|a| a.show()).collect::<Vec<_>>()}));
        }
    }
    if cfg.shard == 0 && out.resume_from <= nprog {
        // pinned witness of the listed legacy-integer-mode finding
        let prog = Program {
            params: Pat::flat(&[("A0".to_string(), Ty::Int)], None),
            helpers: vec![],
            body: Expr::If(Box::new(Expr::Lit(Lit::Nil)), Box::new(Expr::Var("A0".into())), Box::new(Expr::Lit(Lit::Hex(vec![0])))),
            ret: Ty::Any,
        };
        let mut prng = Rng::new(1);
        let case = finish_case(&mut prng, prog, "pinned-legacy-zero".into(), 2);
        run_case(&mut out, &case, &[Dialect::Cl23]);
    }
    let bad = out.get("violations");
    out.finish(cfg);
    if bad > 0 { 1 } else { 0 }
}
