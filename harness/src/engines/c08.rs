// C08 — binary (de)serialisation is lossless, canonical and rejects malformed input.
use clvmr::allocator::Allocator;
use clvmr::serde::node_from_bytes;
use serde_json::json;

use crate::common::*;
use crate::engines::c07::interesting_tree;
use crate::repo::*;

fn consensus_decode(b: &[u8]) -> Result<V, String> {
    let mut a = Allocator::new();
    node_from_bytes(&mut a, b).map(|n| V::from_node(&a, n)).map_err(|e| format!("{e}"))
}

fn check_roundtrip(out: &mut Out, stratum: &str, x: &V, label: &str) {
    out.count("evaluations");
    out.count(&format!("stratum.{stratum}"));
    let want = x.ser();
    match repo_serialize(x) {
        Err(p) => out.violation(json!({"kind":"serialise_panic","case":label,"panic":p})),
        Ok(got) => {
            if got != want {
                let d = got.iter().zip(want.iter()).position(|(a, b)| a != b).unwrap_or(got.len().min(want.len()));
                out.violation(json!({"kind":"serialised_bytes_differ_from_consensus","case":label,"ours_len":got.len(),"consensus_len":want.len(),"first_difference_at":d,
                    "ours_prefix":hex::encode(&got[..got.len().min(12)]),"consensus_prefix":hex::encode(&want[..want.len().min(12)])}));
            }
        }
    }
    match repo_deserialize(&want) {
        Ok(back) => {
            if &back != x {
                out.violation(json!({"kind":"deserialise_changed_value","case":label,"encoding_prefix":hex::encode(&want[..want.len().min(12)]),"back_nodes":back.nodes(),
                    "back_atom_len": match &back { V::A(b) => json!(b.len()), _ => json!(null) }}));
            } else {
                out.nontrivial(fnv_s(label) ^ fnv(&want[..want.len().min(64)]));
            }
        }
        Err(m) => out.violation(json!({"kind":"deserialise_rejects_valid_encoding","case":label,"error":m})),
    }
}

fn check_decode(out: &mut Out, stratum: &str, b: &[u8]) {
    out.count("evaluations");
    out.count(&format!("stratum.{stratum}"));
    match repo_deserialize(b) {
        Err(m) => {
            if m.starts_with("PANIC") {
                out.violation(json!({"kind":"deserialise_panic","input":hex::encode(&b[..b.len().min(64)]),"panic":m}));
            } else {
                out.count("ours.err");
            }
        }
        Ok(v) => {
            out.count("ours.ok");
            match consensus_decode(b) {
                Ok(c) if c == v => {
                    out.nontrivial(fnv(b));
                }
                Ok(c) => out.violation(json!({"kind":"decoded_value_differs_from_consensus","input":hex::encode(&b[..b.len().min(64)]),"input_len":b.len(),"ours":trunc(&v.show(),120),"consensus":trunc(&c.show(),120)})),
                Err(e) => out.violation(json!({"kind":"decoded_what_consensus_rejects","input":hex::encode(&b[..b.len().min(64)]),"input_len":b.len(),"ours":trunc(&v.show(),120),"consensus_error":e})),
            }
        }
    }
}

pub fn run(cfg: &Cfg) -> i32 {
    let mut out = Out::new("C08", cfg);
    let shard = cfg.shard as u64;
    let ns = cfg.nshards as u64;
    let mut rng = Rng::derive(cfg.seed, 8, shard);

    // A. atoms at every length class boundary, alone and inside trees
    let mut lens: Vec<usize> = vec![0, 1, 2, 0x3e, 0x3f, 0x40, 0x41, 0x7f, 0x80, 0xff, 0x100, 0x1ffe, 0x1fff, 0x2000, 0x2001, 0x7fff, 0x8000, 0xffff, 0x10000, 0x12345, 0x7ffff, 0x80000, 0xffffe, 0xfffff, 0x100000, 0x100001];
    if cfg.thorough() {
        lens.extend([0x400000usize, 0x7ffffff, 0x8000000]);
    }
    for (k, len) in lens.iter().enumerate() {
        if (k as u64) % ns != shard {
            continue;
        }
        for fill in [0x00u8, 0x7f, 0x80, 0xff] {
            if *len > 0x200000 && fill != 0x80 {
                continue;
            }
            let mut data = vec![fill; *len];
            if *len > 4 {
                // make it position-sensitive
                for (i, d) in data.iter_mut().enumerate().step_by(997) {
                    *d = (i as u8) ^ fill;
                }
            }
            let atom = V::A(data);
            out.seen("length_classes", &format!("{len:#x}"));
            check_roundtrip(&mut out, "length_boundaries", &atom, &format!("atom len {len:#x} fill {fill:#x}"));
            if *len <= 0x100001 {
                let t = V::list(&[V::int(1), atom.clone(), V::cons(atom.clone(), V::int(2))]);
                check_roundtrip(&mut out, "length_boundaries", &t, &format!("tree with atoms len {len:#x} fill {fill:#x}"));
            }
        }
        if *len == 1 {
            for b in 0..=255u8 {
                check_roundtrip(&mut out, "length_boundaries", &V::A(vec![b]), &format!("single byte {b:#x}"));
            }
        }
    }
    // B. random trees
    for i in 0..cfg.pick(10_000, 100_000) {
        let t = interesting_tree(&mut rng, 5);
        check_roundtrip(&mut out, "random_trees", &t, &format!("random tree {i}"));
        if i < 2 && cfg.shard == 0 {
            out.sample(json!({"roundtrip_tree": trunc(&t.show(), 200), "encoding": trunc(&t.hex(), 120)}));
        }
    }
    // C. decoder differential: every byte string up to maxlen
    let maxlen = cfg.pick(2usize, 3usize);
    let mut total = 0u64;
    for len in 0..=maxlen {
        let count = 256u64.pow(len as u32);
        total += count;
        let mut i = shard;
        while i < count {
            let mut b = vec![0u8; len];
            let mut k = i;
            for p in (0..len).rev() {
                b[p] = (k & 0xff) as u8;
                k >>= 8;
            }
            check_decode(&mut out, "decode_exhaustive", &b);
            i += ns;
        }
    }
    out.extra.insert("decode_exhaustive_total".into(), json!(total));
    out.extra.insert("decode_exhaustive_maxlen".into(), json!(maxlen));
    // D. mutated valid encodings: truncation at every offset, flipped prefix bits, over-long prefixes, garbage
    for i in 0..cfg.pick(1500, 15_000) {
        let t = match i % 4 {
            0 => { let n = *rng.pick(&[0x3fusize, 0x40, 0x41, 200, 0x1fff, 0x2000, 0x2001]); V::A(rng.bytes(n)) }
            _ => interesting_tree(&mut rng, 4),
        };
        let enc = t.ser();
        if enc.len() > 20000 && i % 16 != 0 {
            continue;
        }
        let step = if enc.len() > 600 { enc.len() / 300 } else { 1 };
        let mut off = 0;
        while off < enc.len() {
            check_decode(&mut out, "truncations", &enc[..off]);
            off += step;
        }
        for _ in 0..8 {
            let mut m = enc.clone();
            if m.is_empty() { break; }
            match rng.below(5) {
                0 => { let p = rng.below(m.len().min(6)); m[p] ^= 1 << rng.below(8); }
                1 => { let p = rng.below(m.len()); m[p] ^= 1 << rng.below(8); }
                2 => { m.extend(rng.rbytes(1, 4)); }
                3 => {
                    // over-long prefix for a short atom
                    let payload = rng.rbytes(0, 5);
                    let pre = rng.pick(&[vec![0xc0u8, payload.len() as u8], vec![0xe0, 0, payload.len() as u8], vec![0xf0, 0, 0, payload.len() as u8], vec![0xf8, 0, 0, 0, payload.len() as u8], vec![0xfc, 0, 0, 0, 0, payload.len() as u8], vec![0xfe, 0, 0, 0, 0, 0, payload.len() as u8]]).clone();
                    m = pre.clone();
                    m.extend(payload);
                }
                _ => { let p = rng.below(m.len()); m.insert(p, rng.next() as u8); }
            }
            check_decode(&mut out, "mutations", &m);
        }
    }
    for _ in 0..cfg.pick(20_000, 300_000) {
        let n = 1 + rng.below(12);
        let mut b = rng.bytes(n);
        if rng.chance(1, 2) {
            b[0] = *rng.pick(&[0xffu8, 0x80, 0x81, 0xbf, 0xc0, 0xdf, 0xe0, 0xef, 0xf0, 0xf7, 0xf8, 0xfb, 0xfc, 0xfd, 0xfe]);
        }
        check_decode(&mut out, "random_bytes", &b);
    }
    let bad = out.get("violations");
    out.finish(cfg);
    if bad > 0 { 1 } else { 0 }
}
