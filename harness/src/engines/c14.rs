// C14 — front ends never crash: any input yields a result or a located error.
use std::collections::HashMap;
use std::rc::Rc;

use clvmr::allocator::Allocator;
use serde_json::json;

use chialisp::classic::clvm::__type_compatibility__::Stream;
use chialisp::classic::clvm_tools::cmds::{call_tool, launch_tool};
use chialisp::classic::clvm_tools::debug::check_unused;
use chialisp::classic::clvm_tools::stages::stage_0::{DefaultProgramRunner, RunProgramOption, TRunProgram};
use chialisp::compiler::cldb::{CldbNoOverride, CldbRun, CldbRunEnv};
use chialisp::compiler::clvm::start_step;
use chialisp::compiler::compiler::DefaultCompilerOpts;
use chialisp::compiler::comptypes::CompilerOpts;
use chialisp::compiler::preprocessor::gather_dependencies;
use chialisp::compiler::prims::prim_map;
use chialisp::compiler::repl::Repl;
use chialisp::compiler::sexp::parse_sexp;
use chialisp::compiler::srcloc::Srcloc;

use crate::common::*;
use crate::engines::c15::loc_in_bounds;
use crate::gen::*;
use crate::mutate::*;
use crate::progs::*;
use crate::repo::*;

pub struct Corpus {
    pub shipped: Vec<(String, String)>, // (path, text)
    pub include_dirs: Vec<String>,
}

pub fn load_corpus() -> Corpus {
    let root = "/repo/resources/tests";
    let mut shipped = vec![];
    let mut dirs = vec![root.to_string()];
    let mut stack = vec![root.to_string()];
    while let Some(d) = stack.pop() {
        let mut entries: Vec<_> = match std::fs::read_dir(&d) {
            Ok(e) => e.filter_map(|x| x.ok()).collect(),
            Err(_) => continue,
        };
        entries.sort_by_key(|e| e.path());
        for e in entries {
            let p = e.path();
            let ps = p.to_string_lossy().to_string();
            if p.is_dir() {
                dirs.push(ps.clone());
                stack.push(ps);
            } else if [".clsp", ".clvm", ".clinc", ".clib", ".cl", ".clsp.hex"].iter().any(|x| ps.ends_with(x)) {
                if let Ok(t) = std::fs::read_to_string(&p) {
                    if t.len() <= 4096 && !t.is_empty() {
                        shipped.push((ps, t));
                    }
                }
            }
        }
    }
    shipped.sort();
    dirs.sort();
    Corpus { shipped, include_dirs: dirs }
}

fn panic_sig(p: &str) -> String {
    // "path/to/file.rs:LINE:COL: message" -> "panic:<file>:<message without digits, 48 chars>"
    let file = p.split(':').next().unwrap_or("?");
    let file = file.rsplit("/src/").next().map(|x| format!("src/{x}")).unwrap_or_else(|| file.to_string());
    let msg: String = p.splitn(4, ':').nth(3).unwrap_or("").trim().chars().filter(|c| !c.is_ascii_digit()).take(48).collect();
    format!("panic:{file}:{msg}")
}

struct Ctx<'a> {
    out: &'a mut Out,
    id: &'a str,
    input: &'a [u8],
    files: Vec<(String, String)>,
    any_ok: bool,
}

impl<'a> Ctx<'a> {
    fn entry(&mut self, name: &str, r: Result<Result<(), Option<Loc>>, String>) {
        self.out.count("evaluations");
        self.out.count(&format!("entry.{name}"));
        match r {
            Err(p) => {
                let sig = panic_sig(&p);
                self.out.violation(json!({"kind":"front_end_panic","engine":"c14","sig":sig,"entry":name,"case":self.id,"panic":p,
                    "input":trunc(&String::from_utf8_lossy(self.input),1500),"input_hex_prefix":hex::encode(&self.input[..self.input.len().min(64)])}));
            }
            Ok(Ok(())) => {
                self.any_ok = true;
                self.out.count("outcome.ok");
            }
            Ok(Err(loc)) => {
                self.out.count("outcome.err");
                if let Some(l) = loc {
                    self.out.count("located_errors");
                    if let Err(why) = loc_in_bounds(&l, &self.files) {
                        // listed finding: the end of a list's location is extrapolated from its last element (one column per
                        // enclosing list) instead of being the position of its closing parenthesis; when the parentheses close on
                        // later lines the end runs past the end of the line that holds the last element, by at most the nesting
                        // depth.  Attributed only to exactly that: a column overshoot no larger than the input's nesting depth.
                        let sig = {
                            let nums: Vec<usize> = why.split(|c: char| !c.is_ascii_digit()).filter(|x| !x.is_empty()).filter_map(|x| x.parse().ok()).collect();
                            // "column C beyond line L (extent E) of F"
                            if why.starts_with("column ") && nums.len() >= 3 && l.until.is_some() && nums[0] > nums[2] && nums[0] - nums[2] <= nesting(&String::from_utf8_lossy(self.input)) + 2 {
                                Some("location:list-end-extrapolated-from-its-last-element")
                            } else {
                                None
                            }
                        };
                        self.out.violation(json!({"kind":"error_location_out_of_bounds","engine":"c14","sig":sig,"entry":name,"case":self.id,"loc":format!("{}({}):{}", l.file, l.line, l.col),"why":why,
                            "input":trunc(&String::from_utf8_lossy(self.input),1500)}));
                    }
                }
            }
        }
    }
}

fn cerr_loc(e: &CErr) -> Option<Loc> {
    match e {
        CErr::Err { loc, .. } => loc.clone(),
        CErr::Panic(_) => None,
    }
}

fn compile_entry(r: Result<Compiled, CErr>) -> Result<Result<(), Option<Loc>>, String> {
    match r {
        Ok(_) => Ok(Ok(())),
        Err(CErr::Panic(p)) => Err(p),
        Err(e) => Ok(Err(cerr_loc(&e))),
    }
}

pub fn exercise(out: &mut Out, id: &str, input: &[u8], include_dirs: &[String], symfile: &str) -> bool {
    let text = String::from_utf8_lossy(input).to_string();
    let fname = "*input*".to_string();
    let mut files = vec![(fname.clone(), text.clone()), ("*command*".to_string(), text.clone())];
    // include files that the text names (directly or through other include files) and that exist
    // in the search path: an error may be located in any of them
    let mut frontier: Vec<String> = vec![text.clone()];
    for _depth in 0..4 {
        let mut next = vec![];
        for t in frontier.iter() {
            for tok in tokenize(t) {
                if tok.contains('.') && tok.len() < 80 && !files.iter().any(|(n, _)| *n == tok) {
                    for d in include_dirs {
                        let p = format!("{d}/{tok}");
                        if let Ok(ft) = std::fs::read_to_string(&p) {
                            files.push((p.clone(), ft.clone()));
                            files.push((tok.clone(), ft.clone()));
                            next.push(ft);
                        }
                    }
                }
            }
        }
        if next.is_empty() {
            break;
        }
        frontier = next;
    }
    let mut cx = Ctx { out, id, input, files, any_ok: false };

    // 0. input that is not UTF-8 reaches the readers as raw bytes (the modern reader takes a byte iterator; include files are
    //    read as bytes): the modern reader on the bytes, and the bytes as an include file of a small program
    if std::str::from_utf8(input).is_err() {
        let raw = input.to_vec();
        let r = guard(move || chialisp::compiler::sexp::parse_sexp(chialisp::compiler::srcloc::Srcloc::start("*raw*"), raw.iter().copied()).map(|_| ()).map_err(|_| ()));
        cx.entry("modern_reader_raw_bytes", match r {
            Ok(Ok(())) => Ok(Ok(())),
            Ok(Err(())) => Ok(Err(None)),
            Err(p) => Err(p),
        });
        let dir = format!("{}/raw-inc-{}", std::env::temp_dir().display(), std::process::id());
        if std::fs::create_dir_all(&dir).is_ok() && std::fs::write(format!("{dir}/rawinc.clib"), input).is_ok() {
            let lossy = String::from_utf8_lossy(input).to_string();
            cx.files.push((format!("{dir}/rawinc.clib"), lossy.clone()));
            cx.files.push(("rawinc.clib".to_string(), lossy));
            for sigil in ["*standard-cl-21*", "*standard-cl-23*"] {
                let main = format!("(mod (X) (include {sigil}) (include rawinc.clib) X)");
                cx.entry("include_file_raw_bytes", compile_entry(compile_lib(&main, "*input*", &[dir.clone()], false, false)));
            }
            let main = "(mod (X) (include rawinc.clib) X)".to_string();
            cx.entry("include_file_raw_bytes_classic", compile_entry(compile_lib(&main, "*input*", &[dir.clone()], false, false)));
        }
    }
    // 1. compile: library path (optimising) and the CLI derivation, file-name aware
    cx.entry("compile_library_path", compile_entry(compile_lib(&text, &fname, include_dirs, true, false)));
    cx.entry("compile_no_optimise", compile_entry(compile_lib(&text, &fname, include_dirs, false, true)));
    let is_modern = detect_dialect(&text).map(|d| d.stepping.is_some()).unwrap_or(false);
    if is_modern {
        cx.entry("compile_cli", compile_entry(compile_cli_modern(&text, None, include_dirs, false)));
    }

    // 2. assemble / disassemble / serialise
    let asm = classic_assemble(&text);
    match &asm {
        Ok(v) => {
            cx.entry("assemble", Ok(Ok(())));
            for ver in 0..=2usize {
                cx.entry("disassemble", classic_disassemble(v, Some(ver)).map(|_| Ok(())).map_err(|p| p.trim_start_matches("PANIC ").to_string()));
            }
            cx.entry("serialise", repo_serialize(v).map(|_| Ok(())).map_err(|p| p.trim_start_matches("PANIC ").to_string()));
        }
        Err(m) => {
            if m.starts_with("PANIC ") {
                cx.entry("assemble", Err(m.trim_start_matches("PANIC ").to_string()));
            } else {
                cx.entry("assemble", Ok(Err(None)));
            }
        }
    }

    // 3. deserialise the raw bytes, and the text read as hex
    for (nm, bytes) in [("deserialise_raw", input.to_vec()), ("deserialise_hex", hex::decode(text.trim()).unwrap_or_default())] {
        if nm == "deserialise_hex" && bytes.is_empty() {
            continue;
        }
        match repo_deserialize(&bytes) {
            Ok(_) => cx.entry(nm, Ok(Ok(()))),
            Err(m) if m.starts_with("PANIC ") => cx.entry(nm, Err(m.trim_start_matches("PANIC ").to_string())),
            Err(_) => cx.entry(nm, Ok(Err(None))),
        }
    }

    // 4. run (brun style, cost limited) and step (stepping evaluator, debugger)
    if let Ok(v) = &asm {
        let v2 = v.clone();
        let r = guard(move || {
            let mut a = Allocator::new();
            let p = v2.to_node(&mut a);
            let runner = DefaultProgramRunner::new();
            runner.run_program(&mut a, p, clvmr::allocator::NodePtr::NIL, Some(RunProgramOption { max_cost: Some(2_000_000), ..RunProgramOption::default() })).is_ok()
        });
        cx.entry("brun", r.map(|ok| if ok { Ok(()) } else { Err(None) }));
    }
    let t2 = text.clone();
    let parsed = guard(move || parse_sexp(Srcloc::start("*input*"), t2.bytes()));
    match parsed {
        Err(p) => cx.entry("modern_reader", Err(p)),
        Ok(Err((l, _))) => cx.entry("modern_reader", Ok(Err(Some(loc_of(&l))))),
        Ok(Ok(forms)) => {
            cx.entry("modern_reader", Ok(Ok(())));
            if let Some(f0) = forms.first().cloned() {
                let f1 = f0.clone();
                let r = guard(move || {
                    let nil = Rc::new(chialisp::compiler::sexp::SExp::Nil(Srcloc::start("*input*")));
                    matches!(stepping_eval(f1, nil, 3000), StepOutcome::Panic(_))
                });
                match r {
                    Ok(false) => cx.entry("stepping_run", Ok(Ok(()))),
                    Ok(true) => cx.entry("stepping_run", Err("panic inside stepping evaluator (see stepping_eval)".to_string())),
                    Err(p) => cx.entry("stepping_run", Err(p)),
                }
                // debugger
                let f2 = f0.clone();
                let lines: Vec<String> = text.lines().map(|s| s.to_string()).collect();
                let r = guard(move || {
                    let mut a = Allocator::new();
                    let runner: Rc<dyn TRunProgram> = Rc::new(DefaultProgramRunner::new());
                    let nil = Rc::new(chialisp::compiler::sexp::SExp::Nil(Srcloc::start("*input*")));
                    let env = CldbRunEnv::new(None, Rc::new(lines), Box::new(CldbNoOverride::new()));
                    let mut run = CldbRun::new(runner, prim_map(), Box::new(env), start_step(f2, nil));
                    let mut n = 0;
                    while !run.is_ended() && n < 300 {
                        run.step(&mut a);
                        n += 1;
                    }
                });
                cx.entry("cldb", r.map(|_| Ok(())));
            }
        }
    }

    // 5. preprocess (-E), dependency listing, unused-argument check
    {
        let t = text.clone();
        let sf = symfile.to_string();
        let dirs = include_dirs.to_vec();
        let r = guard(move || {
            let mut s = Stream::new(None);
            let mut args = vec!["run".to_string(), "-E".to_string(), "--symbol-output-file".to_string(), sf];
            for d in dirs.iter().take(3) {
                args.push("-i".to_string());
                args.push(d.clone());
            }
            args.push(t);
            launch_tool(&mut s, &args, "run", 2);
        });
        cx.entry("preprocess", r.map(|_| Ok(())));
    }
    {
        let t = text.clone();
        let dirs = include_dirs.to_vec();
        let r = guard(move || {
            let opts: Rc<dyn CompilerOpts> = Rc::new(DefaultCompilerOpts::new("*input*")).set_search_paths(&dirs);
            gather_dependencies(opts, "*input*", &t).map(|_| ()).map_err(|e| Some(loc_of(&e.0)))
        });
        cx.entry("dependencies", r);
    }
    {
        let t = text.clone();
        let dirs = include_dirs.to_vec();
        let r = guard(move || {
            let opts: Rc<dyn CompilerOpts> = Rc::new(DefaultCompilerOpts::new("*input*")).set_search_paths(&dirs);
            check_unused(opts, &t).map(|_| ()).map_err(|e| Some(loc_of(&e.0)))
        });
        cx.entry("check_unused", r);
    }

    // 6. REPL, line by line
    {
        let t = text.clone();
        let r = guard(move || {
            let mut a = Allocator::new();
            let opts: Rc<dyn CompilerOpts> = Rc::new(DefaultCompilerOpts::new("*input*"));
            let runner: Rc<dyn TRunProgram> = Rc::new(DefaultProgramRunner::new());
            let mut repl = Repl::new(opts, runner);
            let mut last: Result<(), Option<Loc>> = Ok(());
            for line in t.lines().take(40) {
                match repl.process_line(&mut a, line.to_string()) {
                    Ok(_) => {}
                    // (REPL locations are relative to the expression being entered, not to a file:
                    // the location clause is not applied to them)
                    Err(_) => last = Err(None),
                }
            }
            last
        });
        cx.entry("repl", r);
    }

    // 7. the command line tools, in process
    for (tool, stage, extra) in [("run", 2u32, vec![]), ("run", 2u32, vec!["-O".to_string()]), ("brun", 0u32, vec![])] {
        let t = text.clone();
        let sf = symfile.to_string();
        let tool_s = tool.to_string();
        let r = guard(move || {
            let mut s = Stream::new(None);
            let mut args = vec![tool_s.clone(), "--symbol-output-file".to_string(), sf, "-m".to_string(), "2000000".to_string()];
            args.extend(extra);
            args.push(t);
            launch_tool(&mut s, &args, &tool_s, stage);
        });
        cx.entry(&format!("tool_{tool}"), r.map(|_| Ok(())));
    }
    for tool in ["opc", "opd"] {
        let t = text.clone();
        let tool_s = tool.to_string();
        let r = guard(move || {
            let mut a = Allocator::new();
            let mut s = Stream::new(None);
            let _ = call_tool(&mut s, &mut a, &tool_s, &[tool_s.clone(), t]);
        });
        cx.entry(&format!("tool_{tool}"), r.map(|_| Ok(())));
    }
    cx.any_ok
}

pub fn input_at(seed: u64, shard: u64, i: u64, corpus: &Corpus) -> (Vec<u8>, &'static str) {
    let mut rng = Rng::derive(seed.wrapping_mul(1_000_003).wrapping_add(14), shard, i);
    let pick_base = |rng: &mut Rng| -> String {
        if !corpus.shipped.is_empty() && rng.chance(1, 3) {
            corpus.shipped[rng.below(corpus.shipped.len())].1.clone()
        } else {
            let classic = rng.chance(1, 5);
            let mut g = if classic { GenCfg::classic() } else { GenCfg::modern() };
            g.avoid_known = rng.chance(2, 3);
            g.max_depth = 3;
            let case = make_case(rng, &g, "b".into(), 1);
            let d = if classic { Dialect::Classic } else { MODERN[rng.below(6)] };
            if supported(&case.prog, d) { case.text(d) } else { case.text(Dialect::Cl23) }
        }
    };
    match rng.below(10) {
        0 => (soup(&mut rng), "token_soup"),
        1 => {
            let n = 1 + rng.below(64);
            (rng.bytes(n), "random_bytes")
        }
        2 => (pick_base(&mut rng).into_bytes(), "unmutated"),
        _ => {
            let a = pick_base(&mut rng);
            let b = pick_base(&mut rng);
            let mut m = mutate(&mut rng, &a, &b);
            if rng.chance(1, 4) {
                let t = String::from_utf8_lossy(&m).to_string();
                m = mutate(&mut rng, &t, &a);
            }
            if rng.chance(1, 5) {
                // bytes that are not UTF-8 (a Latin-1 or damaged file) inside tokens: a digit of a number, or any token character,
                // replaced by a byte >= 0x80 (half of the time one that Unicode classes as numeric when read as Latin-1)
                let pos: Vec<usize> = m.iter().enumerate().filter(|(_, b)| b.is_ascii_digit()).map(|(i, _)| i).collect();
                let pos = if pos.is_empty() || rng.chance(1, 4) { (0..m.len()).filter(|i| m[*i].is_ascii_alphanumeric()).collect() } else { pos };
                for _ in 0..1 + rng.below(3) {
                    if pos.is_empty() {
                        break;
                    }
                    let at = pos[rng.below(pos.len())];
                    m[at] = if rng.chance(1, 2) { *rng.pick(&[0xb2u8, 0xb3, 0xb9, 0xbc, 0xbd, 0xbe]) } else { 0x80 + (rng.below(128) as u8) };
                }
                return (m, "mutant_with_non_utf8_bytes");
            }
            (m, "mutant")
        }
    }
}

pub fn run(cfg: &Cfg) -> i32 {
    let corpus = load_corpus();
    let symfile = format!("{}/{}.c14.sym", if cfg.outdir.is_empty() { "/tmp" } else { &cfg.outdir }, cfg.shard);
    if cfg.rest.first().map(|x| x == "--replay-case").unwrap_or(false) {
        // vh c14 --replay-case m<seed>-<shard>-<i>
        let parts: Vec<u64> = cfg.rest[1].trim_start_matches('m').trim_end_matches('u').split('-').map(|x| x.parse().unwrap()).collect();
        let (input, kind) = input_at(parts[0], parts[1], parts[2], &corpus);
        println!("kind {kind}\n----\n{}\n----", String::from_utf8_lossy(&input));
        if cfg.rest.iter().any(|x| x == "--print") {
            return 0;
        }
        let mut out = Out::new("C14", cfg);
        exercise(&mut out, &cfg.rest[1], &input, &corpus.include_dirs, &symfile);
        let bad = out.get("violations");
        for v in out.violations.iter() {
            println!("{}", v);
        }
        return if bad > 0 { 1 } else { 0 };
    }
    let mut out = Out::new("C14", cfg);
    let shard = cfg.shard as u64;
    out.extra.insert("shipped_sources".into(), json!(corpus.shipped.len()));
    let n: usize = std::env::var("VH_NPROG").ok().and_then(|x| x.parse().ok()).unwrap_or(cfg.pick(500, 4000));
    for i in out.resume_from..n {
        out.checkpoint(i);
        let (input, kind) = input_at(cfg.seed, shard, i as u64, &corpus);
        if nesting(&String::from_utf8_lossy(&input)) > 200 {
            out.count("skipped_nesting_over_200");
            continue;
        }
        // unmutated (well-formed) inputs are marked: see the C14 plan
        let id = format!("m{}-{}-{}{}", cfg.seed, shard, i, if kind == "unmutated" { "u" } else { "" });
        out.count(&format!("kind.{kind}"));
        if !out.begin(&id) {
            continue;
        }
        let before = out.get("violations");
        let any_ok = exercise(&mut out, &id, &input, &corpus.include_dirs, &symfile);
        out.end(&id);
        if out.get("violations") == before {
            // distinct non-trivial: a distinct input that at least one entry point rejected or accepted cleanly
            out.nontrivial(fnv(&input) ^ (any_ok as u64));
        }
        if i < 3 && cfg.shard == 0 {
            out.sample(json!({"kind": kind, "input": trunc(&String::from_utf8_lossy(&input), 300)}));
        }
    }
    let _ = HashMap::<u8, u8>::new();
    let bad = out.get("violations");
    out.finish(cfg);
    if bad > 0 { 1 } else { 0 }
}
