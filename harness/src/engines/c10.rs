// C10 — ill-scoped programs are rejected, never miscompiled and never loop the compiler.
use std::collections::BTreeSet;

use serde_json::json;

use crate::common::*;
use crate::engines::c01::case_at;
use crate::gen::*;
use crate::progs::*;
use crate::repo::*;

#[derive(Clone, Debug)]
pub struct Defect {
    pub class: &'static str,
    pub where_: String,
    /// identifiers one of which the error has to name
    pub names: Vec<String>,
    pub prog: Program,
    /// unbound_name: the same program with a marker constant at the position of the unbound name
    pub marker_twin: Option<Program>,
    /// duplicate_function: is the redefined function reachable from the main expression
    pub reachable: bool,
}

// ------------------------------------------------------------------------------------------------
// variable positions

fn count_vars_qq(q: &QQ) -> usize {
    match q {
        QQ::Data(_) => 0,
        QQ::Unquote(e) => count_vars(e),
        QQ::Cons(a, b) => count_vars_qq(a) + count_vars_qq(b),
    }
}

fn count_vars(e: &Expr) -> usize {
    match e {
        Expr::Lit(_) | Expr::Quote(_) | Expr::ModVal(_) => 0,
        Expr::Var(_) => 1,
        Expr::Prim(_, a) | Expr::List(a) | Expr::MacroCall(_, a) => a.iter().map(count_vars).sum(),
        Expr::If(a, b, c) => count_vars(a) + count_vars(b) + count_vars(c),
        Expr::Call(_, a, r) => a.iter().map(count_vars).sum::<usize>() + r.as_ref().map(|x| count_vars(x)).unwrap_or(0),
        Expr::Let(_, bs, body) => bs.iter().map(|(_, x)| count_vars(x)).sum::<usize>() + count_vars(body),
        Expr::Lambda(_, _, b) => count_vars(b),
        Expr::Apply(a, b) => count_vars(a) + count_vars(b),
        Expr::QQ(q) => count_vars_qq(q),
    }
}

struct Repl<'a> {
    n: usize,
    name: &'a str,
    ctx: Vec<&'static str>,
    hit: Option<String>,
}

impl Repl<'_> {
    fn qq(&mut self, q: &QQ) -> QQ {
        match q {
            QQ::Data(v) => QQ::Data(v.clone()),
            QQ::Unquote(e) => QQ::Unquote(self.ex(e)),
            QQ::Cons(a, b) => {
                let x = self.qq(a);
                let y = self.qq(b);
                QQ::Cons(Box::new(x), Box::new(y))
            }
        }
    }
    fn with(&mut self, c: &'static str, e: &Expr) -> Expr {
        self.ctx.push(c);
        let r = self.ex(e);
        self.ctx.pop();
        r
    }
    fn ex(&mut self, e: &Expr) -> Expr {
        match e {
            Expr::Lit(_) | Expr::Quote(_) | Expr::ModVal(_) => e.clone(),
            Expr::Var(_) => {
                if self.hit.is_none() {
                    if self.n == 0 {
                        self.hit = Some(self.ctx.join(">"));
                        return Expr::Var(self.name.to_string());
                    }
                    self.n -= 1;
                }
                e.clone()
            }
            Expr::Prim(op, a) => Expr::Prim(op, a.iter().map(|x| self.with("prim-arg", x)).collect()),
            Expr::List(a) => Expr::List(a.iter().map(|x| self.with("list", x)).collect()),
            Expr::MacroCall(n, a) => Expr::MacroCall(n.clone(), a.iter().map(|x| self.with("macro-arg", x)).collect()),
            Expr::If(a, b, c) => {
                let x = self.with("if-cond", a);
                let y = self.with("if-then", b);
                let z = self.with("if-else", c);
                Expr::If(Box::new(x), Box::new(y), Box::new(z))
            }
            Expr::Call(n, a, r) => {
                let args = a.iter().map(|x| self.with("call-arg", x)).collect();
                let rest = r.as_ref().map(|x| Box::new(self.with("rest-tail", x)));
                Expr::Call(n.clone(), args, rest)
            }
            Expr::Let(k, bs, body) => {
                let nb = bs.iter().map(|(p, x)| (p.clone(), self.with("let-binding", x))).collect();
                let b = self.with("let-body", body);
                Expr::Let(*k, nb, Box::new(b))
            }
            Expr::Lambda(c, p, b) => Expr::Lambda(c.clone(), p.clone(), Box::new(self.with("lambda-body", b))),
            Expr::Apply(a, b) => {
                let x = self.with("apply-fn", a);
                let y = self.with("apply-args", b);
                Expr::Apply(Box::new(x), Box::new(y))
            }
            Expr::QQ(q) => {
                self.ctx.push("qq-unquote");
                let r = self.qq(q);
                self.ctx.pop();
                Expr::QQ(Box::new(r))
            }
        }
    }
}

fn replace_nth_var(e: &Expr, n: usize, name: &str, top: &'static str) -> (Expr, Option<String>) {
    let mut r = Repl { n, name, ctx: vec![top], hit: None };
    let out = r.ex(e);
    (out, r.hit)
}

// ------------------------------------------------------------------------------------------------
// reachability (what the main expression can reach through functions, inline functions and macros)

fn mentioned(e: &Expr, out: &mut BTreeSet<String>) {
    match e {
        Expr::Lit(_) | Expr::Quote(_) | Expr::ModVal(_) => {}
        Expr::Var(n) => {
            out.insert(n.clone());
        }
        Expr::Prim(_, a) | Expr::List(a) => a.iter().for_each(|x| mentioned(x, out)),
        Expr::MacroCall(n, a) => {
            out.insert(n.clone());
            a.iter().for_each(|x| mentioned(x, out));
        }
        Expr::If(a, b, c) => {
            mentioned(a, out);
            mentioned(b, out);
            mentioned(c, out);
        }
        Expr::Call(n, a, r) => {
            out.insert(n.clone());
            a.iter().for_each(|x| mentioned(x, out));
            if let Some(r) = r {
                mentioned(r, out);
            }
        }
        Expr::Let(_, bs, body) => {
            bs.iter().for_each(|(_, x)| mentioned(x, out));
            mentioned(body, out);
        }
        Expr::Lambda(_, _, b) => mentioned(b, out),
        Expr::Apply(a, b) => {
            mentioned(a, out);
            mentioned(b, out);
        }
        Expr::QQ(q) => {
            fn qq(q: &QQ, out: &mut BTreeSet<String>) {
                match q {
                    QQ::Data(_) => {}
                    QQ::Unquote(e) => mentioned(e, out),
                    QQ::Cons(a, b) => {
                        qq(a, out);
                        qq(b, out);
                    }
                }
            }
            qq(q, out)
        }
    }
}

fn reachable_helpers(p: &Program) -> BTreeSet<String> {
    let mut seen = BTreeSet::new();
    let mut todo: Vec<String> = {
        let mut s = BTreeSet::new();
        mentioned(&p.body, &mut s);
        s.into_iter().collect()
    };
    while let Some(n) = todo.pop() {
        if !seen.insert(n.clone()) {
            continue;
        }
        for h in p.helpers.iter() {
            let body = match h {
                Helper::Fun(f) if f.name == n => Some(&f.body),
                Helper::Mac(m) if m.name == n => Some(&m.template),
                Helper::ConstComplex(c, e, _) if *c == n => Some(e),
                _ => None,
            };
            if let Some(b) = body {
                let mut s = BTreeSet::new();
                mentioned(b, &mut s);
                todo.extend(s);
            }
        }
    }
    seen
}


const MARK: i64 = 0x5a17c3d2e1;

fn subst_var_qq(q: &QQ, name: &str, repl: &Expr) -> QQ {
    match q {
        QQ::Data(v) => QQ::Data(v.clone()),
        QQ::Unquote(e) => QQ::Unquote(subst_var(e, name, repl)),
        QQ::Cons(a, b) => QQ::Cons(Box::new(subst_var_qq(a, name, repl)), Box::new(subst_var_qq(b, name, repl))),
    }
}

fn subst_var(e: &Expr, name: &str, repl: &Expr) -> Expr {
    let f = |x: &Expr| subst_var(x, name, repl);
    match e {
        Expr::Var(n) if n == name => repl.clone(),
        Expr::Lit(_) | Expr::Var(_) | Expr::Quote(_) | Expr::ModVal(_) => e.clone(),
        Expr::Prim(op, a) => Expr::Prim(op, a.iter().map(f).collect()),
        Expr::List(a) => Expr::List(a.iter().map(f).collect()),
        Expr::MacroCall(n, a) => Expr::MacroCall(n.clone(), a.iter().map(f).collect()),
        Expr::If(a, b, c) => Expr::If(Box::new(f(a)), Box::new(f(b)), Box::new(f(c))),
        Expr::Call(n, a, r) => Expr::Call(n.clone(), a.iter().map(f).collect(), r.as_ref().map(|x| Box::new(f(x)))),
        Expr::Let(k, bs, body) => Expr::Let(*k, bs.iter().map(|(p, x)| (p.clone(), f(x))).collect(), Box::new(f(body))),
        Expr::Lambda(c, p, b) => Expr::Lambda(c.clone(), p.clone(), Box::new(f(b))),
        Expr::Apply(a, b) => Expr::Apply(Box::new(f(a)), Box::new(f(b))),
        Expr::QQ(q) => Expr::QQ(Box::new(subst_var_qq(q, name, repl))),
    }
}

/// the program with the marker constant wherever the unbound name stands
fn marker_twin(p: &Program, name: &str) -> Program {
    let m = Expr::Lit(Lit::Int(MARK));
    let mut q = p.clone();
    q.body = subst_var(&p.body, name, &m);
    q.helpers = p.helpers.iter().map(|h| match h {
        Helper::Fun(f) => {
            let mut g = f.clone();
            g.body = subst_var(&f.body, name, &m);
            Helper::Fun(g)
        }
        other => other.clone(),
    }).collect();
    q
}

fn has_atom(v: &V, bytes: &[u8]) -> bool {
    match v {
        V::A(b) => b == bytes,
        V::P(a, b) => has_atom(a, bytes) || has_atom(b, bytes),
    }
}

// ------------------------------------------------------------------------------------------------
// defect injection

pub fn defects(rng: &mut Rng, p: &Program, strict: bool, tag: &str) -> Vec<Defect> {
    let mut out = vec![];
    let reach = reachable_helpers(p);
    let fresh = format!("zz_unbound_{tag}");
    if strict {
        // (a) unbound name at a variable position of reachable code
        // main body
        let n = count_vars(&p.body);
        for _ in 0..2.min(n) {
            let k = rng.below(n);
            let (b, hit) = replace_nth_var(&p.body, k, &fresh, "main");
            if let Some(w) = hit {
                let mut q = p.clone();
                q.body = b;
                out.push(Defect { class: "unbound_name", where_: w, names: vec![fresh.clone()], prog: q, marker_twin: None, reachable: true });
            }
        }
        // reachable helpers
        for (hi, h) in p.helpers.iter().enumerate() {
            match h {
                Helper::Fun(f) if reach.contains(&f.name) => {
                    let n = count_vars(&f.body);
                    if n == 0 {
                        continue;
                    }
                    let k = rng.below(n);
                    let (b, hit) = replace_nth_var(&f.body, k, &fresh, if f.inline { "inline-function" } else { "function" });
                    if let Some(w) = hit {
                        let mut q = p.clone();
                        let mut g = f.clone();
                        g.body = b;
                        q.helpers[hi] = Helper::Fun(g);
                        out.push(Defect { class: "unbound_name", where_: w, names: vec![fresh.clone()], prog: q, marker_twin: None, reachable: true });
                    }
                }
                _ => {}
            }
        }
        // an extra lambda capture of an unbound name, and an unbound &rest tail: wrap the main body
        {
            let mut q = p.clone();
            q.body = Expr::List(vec![Expr::Apply(Box::new(Expr::Lambda(vec![fresh.clone()], Pat::flat(&[("lz".to_string(), Ty::Int)], None), Box::new(Expr::Var("lz".into())))), Box::new(Expr::List(vec![Expr::Lit(Lit::Int(1))]))), p.body.clone()]);
            out.push(Defect { class: "unbound_name", where_: "lambda-capture".into(), names: vec![fresh.clone()], prog: q, marker_twin: None, reachable: true });
        }
        if let Some(f) = p.helpers.iter().find_map(|h| match h {
            Helper::Fun(f) if !f.inline && !has_clo_param(&f.params) => Some(f),
            _ => None,
        }) {
            let (npos, _) = f.params.positional();
            let mut q = p.clone();
            let args: Vec<Expr> = (0..npos.saturating_sub(1)).map(|i| Expr::Lit(Lit::Int(i as i64 + 1))).collect();
            q.body = Expr::List(vec![Expr::Call(f.name.clone(), args, Some(Box::new(Expr::Var(fresh.clone())))), p.body.clone()]);
            out.push(Defect { class: "unbound_name", where_: "rest-tail".into(), names: vec![fresh.clone()], prog: q, marker_twin: None, reachable: true });
        }
    }
    // (b) a second definition with the name of an existing function
    let funs: Vec<&Fun> = p.helpers.iter().filter_map(|h| if let Helper::Fun(f) = h { Some(f) } else { None }).collect();
    if !funs.is_empty() {
        let f = funs[rng.below(funs.len())];
        let mut g = f.clone();
        g.inline = if rng.chance(1, 2) { f.inline } else { !f.inline };
        g.body = Expr::Lit(Lit::Int(rng.range(1, 99)));
        g.recursive = false;
        let mut q = p.clone();
        let pos = rng.below(q.helpers.len() + 1);
        q.helpers.insert(pos, Helper::Fun(g.clone()));
        out.push(Defect { class: "duplicate_function", where_: format!("{}{}", if g.inline { "defun-inline " } else { "defun " }, if f.inline { "over inline" } else { "over defun" }), names: vec![f.name.clone()], prog: q, marker_twin: None, reachable: reach.contains(&f.name) });
    }
    // (c) a cycle among inline functions, reachable from the main expression
    {
        let len = 1 + rng.below(4);
        let names: Vec<String> = (0..len).map(|i| format!("cyc_{tag}_{i}")).collect();
        let shape = rng.below(5);
        let mut q = p.clone();
        for i in 0..len {
            let next = names[(i + 1) % len].clone();
            let x = Expr::Var("CX".into());
            let call = Expr::Call(next.clone(), vec![Expr::Prim("-", vec![x.clone(), Expr::Lit(Lit::Int(1))])], None);
            let body = match (shape + i) % 5 {
                0 => Expr::Prim("+", vec![x.clone(), call]),
                1 => Expr::If(Box::new(x.clone()), Box::new(call), Box::new(Expr::Lit(Lit::Int(0)))),
                2 => Expr::Let(LetKind::Let, vec![(Pat::Var("cv".into(), Ty::Int), call)], Box::new(Expr::Var("cv".into()))),
                3 => Expr::List(vec![x.clone(), call]),
                _ => Expr::If(Box::new(Expr::Prim(">", vec![x.clone(), Expr::Lit(Lit::Int(100))])), Box::new(Expr::Lit(Lit::Int(7))), Box::new(call)),
            };
            q.helpers.push(Helper::Fun(Fun { name: names[i].clone(), inline: true, params: Pat::flat(&[("CX".to_string(), Ty::Int)], None), body, ret: Ty::Int, recursive: false }));
        }
        q.body = Expr::List(vec![Expr::Call(names[0].clone(), vec![Expr::Lit(Lit::Int(3))], None), p.body.clone()]);
        out.push(Defect { class: "inline_cycle", where_: format!("length {len} shape {shape}"), names: names.clone(), prog: q, marker_twin: None, reachable: true });
    }
    // a self edge / back edge on inline functions the program already has
    {
        let inl: Vec<(usize, &Fun)> = p.helpers.iter().enumerate().filter_map(|(i, h)| if let Helper::Fun(f) = h { if f.inline && reach.contains(&f.name) && !has_clo_param(&f.params) { Some((i, f)) } else { None } } else { None }).collect();
        if !inl.is_empty() {
            let (hi, f) = inl[rng.below(inl.len())];
            let (npos, _) = f.params.positional();
            let args: Vec<Expr> = (0..npos).map(|i| Expr::Lit(Lit::Int(i as i64))).collect();
            let mut g = f.clone();
            g.body = Expr::If(Box::new(Expr::Lit(Lit::Nil)), Box::new(Expr::Call(f.name.clone(), args, None)), Box::new(f.body.clone()));
            let mut q = p.clone();
            q.helpers[hi] = Helper::Fun(g);
            out.push(Defect { class: "inline_cycle", where_: "self edge on an existing inline function (in a branch never taken)".into(), names: vec![f.name.clone()], prog: q, marker_twin: None, reachable: reach.contains(&f.name) });
        }
    }
    // (d) assign with cyclic / duplicate bindings
    {
        let kind = *rng.pick(&[LetKind::Assign, LetKind::AssignInline, LetKind::AssignLambda]);
        let a = format!("ca_{tag}");
        let b = format!("cb_{tag}");
        let c = format!("cc_{tag}");
        let v = |n: &String| Expr::Var(n.clone());
        let one = Expr::Lit(Lit::Int(1));
        let cyc = match rng.below(3) {
            0 => vec![(Pat::Var(a.clone(), Ty::Int), Expr::Prim("+", vec![v(&a), one.clone()]))],
            1 => vec![(Pat::Var(a.clone(), Ty::Int), Expr::Prim("+", vec![v(&b), one.clone()])), (Pat::Var(b.clone(), Ty::Int), Expr::Prim("*", vec![v(&a), one.clone()]))],
            _ => vec![
                (Pat::Var(a.clone(), Ty::Int), Expr::Prim("+", vec![v(&b), one.clone()])),
                (Pat::Var(c.clone(), Ty::Int), Expr::Lit(Lit::Int(5))),
                (Pat::Var(b.clone(), Ty::Int), Expr::Prim("+", vec![v(&c), v(&a)])),
            ],
        };
        let mut q = p.clone();
        q.body = Expr::List(vec![Expr::Let(kind, cyc, Box::new(v(&a))), p.body.clone()]);
        out.push(Defect { class: "assign_cycle", where_: format!("{kind:?}"), names: vec![a.clone(), b.clone(), c.clone()], prog: q, marker_twin: None, reachable: true });
        // the repeated name directly after the first one, or with 1..3 other bindings in between; plain or inside a pattern
        let mut dup = match rng.below(2) {
            0 => vec![(Pat::Var(a.clone(), Ty::Int), one.clone())],
            _ => vec![(Pat::Pair(Box::new(Pat::Var(a.clone(), Ty::Int)), Box::new(Pat::Var(b.clone(), Ty::Int))), Expr::Prim("c", vec![one.clone(), one.clone()]))],
        };
        for j in 0..rng.below(4) {
            dup.push((Pat::Var(format!("cd_{tag}_{j}"), Ty::Int), Expr::Lit(Lit::Int(10 + j as i64))));
        }
        if rng.chance(1, 3) {
            dup.push((Pat::Pair(Box::new(Pat::Var(format!("ce_{tag}"), Ty::Int)), Box::new(Pat::Var(a.clone(), Ty::Int))), Expr::Prim("c", vec![one.clone(), Expr::Lit(Lit::Int(2))])));
        } else {
            dup.push((Pat::Var(a.clone(), Ty::Int), Expr::Lit(Lit::Int(2))));
        }
        let mut q2 = p.clone();
        q2.body = Expr::List(vec![Expr::Let(kind, dup, Box::new(v(&a))), p.body.clone()]);
        out.push(Defect { class: "assign_duplicate", where_: format!("{kind:?}"), names: vec![a.clone(), b.clone()], prog: q2, marker_twin: None, reachable: true });
    }
    for d in out.iter_mut() {
        if d.class == "unbound_name" && d.where_ != "lambda-capture" {
            d.marker_twin = Some(marker_twin(&d.prog, &fresh));
        }
    }
    out
}

fn judge(out: &mut Out, id: &str, d: Dialect, df: &Defect, text: &str) {
    out.count("evaluations");
    out.count(&format!("class.{}", df.class));
    out.count(&format!("dialect.{}", d.name()));
    if df.class == "unbound_name" {
        out.seen("unbound_positions", &df.where_);
    }
    // -O on every second case, except for *strict-cl-21* (its optimise flag is the subject of a listed C02 finding)
    let dash_o = out.get("evaluations") % 2 == 0 && d != Dialect::StrictCl21;
    let r = compile_cli_modern(text, None, &[], dash_o);
    match r {
        Ok(c) => {
            let mut sig: Option<&str> = None;
            if df.class == "unbound_name" {
                // listed finding: strict dialects do not notice an unbound name in code that is discarded before code generation
                // (argument of an inline function that ignores it, unused binding, branch of a statically decided condition).
                // Counterfactual: the same program with a marker constant in place of the name; attributed only when that
                // compiles and the marker is nowhere in the emitted program.
                if let Some(t) = &df.marker_twin {
                    if let Ok(tc) = compile_cli_modern(&render_program(t, d, false), None, &[], dash_o) {
                        if !has_atom(&tc.prog, &int_to_bytes(MARK as i128)) {
                            sig = Some("strict:unbound-name-in-code-discarded-before-codegen");
                        }
                    }
                }
            }
            if df.class == "inline_cycle" && df.where_.starts_with("self edge") {
                // listed finding: (defun-inline f (..) (if () (f ..) body)) — a self call in a branch under a literal nil condition is accepted
                sig = Some("inline-cycle:self-call-under-a-literal-nil-condition-is-accepted");
            }
            if df.class == "duplicate_function" && !df.reachable {
                // listed finding: helpers nothing reaches are dropped before the redefinition check
                sig = Some("duplicate-definition-of-a-function-nothing-reaches-is-accepted");
            }
            out.violation(json!({"kind":"ill_scoped_program_was_compiled","engine":"c10","sig":sig,"case":id,"dialect":d.name(),"defect":df.class,"where":df.where_,"names":df.names,"source":text,"emitted":trunc(&c.prog.show(), 300)}));
        }
        Err(CErr::Panic(p)) => {
            out.violation(json!({"kind":"compiler_panicked_on_ill_scoped_program","engine":"c10","case":id,"dialect":d.name(),"defect":df.class,"where":df.where_,"panic":p,"source":text}));
        }
        Err(e) => {
            let m = e.msg();
            out.count("rejected");
            // "names the offending identifier or form": an identifier of the defect, or (assign defects) the word binding
            let names_form = matches!(df.class, "assign_cycle" | "assign_duplicate") && m.contains("binding");
            if names_form || df.names.iter().any(|n| m.contains(n.as_str())) {
                out.count("error_names_the_identifier");
                out.nontrivial(fnv_s(text));
                if out.samples.len() < 4 {
                    out.sample(json!({"case": id, "defect": df.class, "where": df.where_, "error": trunc(&m, 160)}));
                }
            } else {
                // listed findings: rejected, but with a message about something else
                let cse_msg = d.stepping() >= 23 && m.contains("Unbound use of v") && m.contains("_$_") && !df.names.iter().any(|n| m.contains(n.as_str()));
                let sig = if cse_msg && (text.contains("(assign") ) {
                    // listed C01 finding cl23-cse-hoists-assign-bound-variable: the optimising dialects' CSE pass hoists a repeated
                    // subexpression out of an assign form and then reports the assign-bound variable as unbound; here it fires before
                    // the injected defect is looked at (the program is rejected, with a message about a generated name)
                    Some("cl23-cse:assign-bound-variable-hoisted")
                } else if df.class == "duplicate_function" {
                    // the twin compiles and the only change is the second definition, so whatever the message says it is
                    // the compiler's reaction to the redefinition (observed: no such callable 'letbinding_$_N' / 'if' / another
                    // function, Unbound use of lambda_$_N, Don't yet support this call type)
                    Some("duplicate-function:rejected-with-an-error-about-something-else")
                } else if df.class == "inline_cycle" && m.contains("stack limit exceeded") {
                    Some("inline-cycle:rejected-as-stack-limit-exceeded")
                } else {
                    None
                };
                out.violation(json!({"kind":"error_does_not_name_the_offending_identifier_or_form","engine":"c10","sig":sig,"case":id,"dialect":d.name(),"defect":df.class,"where":df.where_,"names":df.names,"error":trunc(&m,300),"source":text}));
            }
        }
    }
}

fn cases_for(seed: u64, shard: u64, i: u64) -> Option<(Case, Dialect, Vec<Defect>)> {
    let mut gcfg = GenCfg::modern();
    gcfg.allow_nested_mod = false;
    let case = case_at(seed.wrapping_add(10_000_000), shard, i, &gcfg);
    let d = MODERN[(i % 6) as usize];
    if !supported(&case.prog, d) {
        return None;
    }
    let mut rng = Rng::derive(seed, 1010 + shard, i);
    let ds = defects(&mut rng, &case.prog, d.strict() || d.stepping() >= 23, &format!("{i}"));
    Some((case, d, ds))
}

pub fn run(cfg: &Cfg) -> i32 {
    if cfg.rest.first().map(|x| x == "--replay-case").unwrap_or(false) {
        // vh c10 --replay-case s<seed>-<shard>-<i> <dialect> <k>
        let parts: Vec<u64> = cfg.rest[1].trim_start_matches('s').split('-').map(|x| x.parse().unwrap()).collect();
        let (case, d, ds) = cases_for(parts[0] - 10_000_000, parts[1], parts[2]).expect("case");
        if cfg.rest[3] == "twin" {
            let text = case.text(d);
            println!("twin\n----\n{text}\n----");
            if cfg.rest.iter().any(|x| x == "--print") {
                return 0;
            }
            let r = compile_cli_modern(&text, None, &[], false);
            println!("{}", if r.is_ok() { "compiles" } else { "does not compile" });
            return 0;
        }
        let k: usize = cfg.rest[3].parse().unwrap();
        let text = render_program(&ds[k].prog, d, false);
        println!("{}\n----\n{text}\n----", ds[k].class);
        if cfg.rest.iter().any(|x| x == "--print") {
            return 0;
        }
        let mut out = Out::new("C10", cfg);
        judge(&mut out, &cfg.rest[1], d, &ds[k], &text);
        for v in out.violations.iter() {
            println!("{}", v);
        }
        return if out.get("violations") > 0 { 1 } else { 0 };
    }
    let mut out = Out::new("C10", cfg);
    let shard = cfg.shard as u64;
    let nprog: usize = std::env::var("VH_NPROG").ok().and_then(|x| x.parse().ok()).unwrap_or(cfg.pick(120, 2500));
    for i in out.resume_from..nprog {
        out.checkpoint(i);
        let (case, d, ds) = match cases_for(cfg.seed, shard, i as u64) {
            Some(x) => x,
            None => continue,
        };
        // the repaired twin (the program without the defect) has to compile; also under the watchdog (a twin the
        // compiler does not finish is C14's subject, here the case is inconclusive)
        let tid = format!("{}/{}/twin", case.id, d.name());
        if !out.begin(&tid) {
            continue;
        }
        let twin = compile_cli_modern(&case.text(d), None, &[], false);
        out.end(&tid);
        if twin.is_err() {
            out.count("twin_does_not_compile_case_skipped");
            continue;
        }
        out.count("twins_compile");
        for (k, df) in ds.iter().enumerate() {
            let id = format!("{}/{}/{}", case.id, d.name(), k);
            if !out.begin(&id) {
                continue;
            }
            let text = render_program(&df.prog, d, false);
            judge(&mut out, &id, d, df, &text);
            out.end(&id);
        }
    }
    let bad = out.get("violations");
    out.finish(cfg);
    if bad > 0 { 1 } else { 0 }
}
