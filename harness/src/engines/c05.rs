// C05 — compilation is a pure function of source, include files and options.
use std::collections::{BTreeMap, HashMap};
use std::sync::atomic::Ordering;

use clvmr::allocator::Allocator;
use serde_json::json;

use chialisp::compiler::clvm::convert_from_clvm_rs;
use chialisp::compiler::gensym::ARGNAME_CTR;
use chialisp::compiler::sexp::SExp;

use crate::common::*;
use crate::engines::c01::case_at;
use crate::engines::c03::classic_case_at;
use crate::engines::c14::load_corpus;
use crate::gen::*;
use crate::repo::*;

#[derive(Clone, Debug, PartialEq, Eq)]
pub struct Obs {
    pub result: Result<String, String>, // hex or error message
    pub symbols: BTreeMap<String, String>,
}

fn canon_name(s: &str) -> String {
    // compiler-generated names carry the fresh-name counter by design: name_$_123 -> name_$_N
    let b: Vec<char> = s.chars().collect();
    let mut out = String::new();
    let mut i = 0;
    while i < b.len() {
        if i + 3 <= b.len() && b[i] == '_' && b[i + 1] == '$' && b[i + 2] == '_' {
            out.push_str("_$_N");
            i += 3;
            while i < b.len() && b[i].is_ascii_digit() {
                i += 1;
            }
        } else {
            out.push(b[i]);
            i += 1;
        }
    }
    out
}

pub fn observe(text: &str, path: &str, dirs: &[String], optimize: bool) -> Obs {
    let r = compile_lib(text, path, dirs, optimize, false);
    match r {
        Ok(c) => Obs { result: Ok(c.prog.hex()), symbols: c.symbols.iter().map(|(k, v)| (k.clone(), canon_name(v))).collect() },
        Err(e) => Obs { result: Err(canon_name(&e.msg())), symbols: BTreeMap::new() },
    }
}

/// Is the thread's integer-conversion mode the default (new) one?
fn mode_is_new() -> bool {
    let mut a = Allocator::new();
    let z = a.new_atom(&[0]).unwrap();
    matches!(convert_from_clvm_rs(&mut a, hloc(), z).map(|x| (*x).clone()), Ok(SExp::QuotedString(_, _, _)))
}


// ------------------------------------------------------------------------------------------------
// probe programs: small programs built from the shapes the optimiser passes key on (calls with constant
// arguments, several independent repeated subexpressions in one body, inline functions used more than once,
// lets, lambdas), so that state left behind by an earlier compilation or an iteration-order decision has
// something to act on.  `typo`: the same program with one variable replaced by an unbound name (a history
// that ends in an error raised from inside the pass).

fn arith(rng: &mut Rng, vars: &[&str], depth: usize) -> String {
    if depth == 0 || rng.chance(1, 5) {
        return if rng.chance(2, 3) { rng.pick(vars).to_string() } else { format!("{}", rng.range(2, 99)) };
    }
    let op = *rng.pick(&["+", "*", "-", "logxor", "logior"]);
    let n = 2 + rng.below(3);
    let args: Vec<String> = (0..n).map(|_| arith(rng, vars, depth - 1)).collect();
    format!("({} {})", op, args.join(" "))
}

fn probe_program(rng: &mut Rng, sigil: &str, typo: bool) -> String {
    let mut helpers: Vec<String> = vec![];
    let mut main_parts: Vec<String> = vec![];
    let q = |typo: bool, v: &str| if typo { "QQ_unbound".to_string() } else { v.to_string() };
    let nshapes = 2 + rng.below(3);
    let mut typo_left = typo;
    for k in 0..nshapes {
        let this_typo = typo_left && (k == nshapes - 1 || rng.chance(1, 2));
        if this_typo {
            typo_left = false;
        }
        match rng.below(7) {
            0 => {
                // constant call, from the main expression and from inside a helper
                helpers.push(format!("(defun F{k} (A B) (* A B {} {}))", rng.range(2, 9), q(this_typo, "A")));
                helpers.push(format!("(defun G{k} (X) (+ X (F{k} {} {})))", rng.range(2, 50), rng.range(2, 50)));
                main_parts.push(format!("(G{k} X)"));
                if rng.chance(1, 2) {
                    main_parts.push(format!("(F{k} {} {})", rng.range(2, 50), rng.range(2, 50)));
                }
            }
            1 => {
                // two (or three) independent repeated subexpressions over the arguments
                let e1 = arith(rng, &["A", "B"], 2);
                let e2 = arith(rng, &["B", "A"], 2);
                let e3 = arith(rng, &["A", "B"], 2);
                helpers.push(format!("(defun C{k} (A B) (list (sha256 (sha256 {e1} {e2}) (sha256 {e3} {})) (sha256 (sha256 {e3} A) (sha256 {e1} {e2}))))", q(this_typo, "A")));
                main_parts.push(format!("(C{k} X Y)"));
            }
            2 => {
                // repeated subexpressions that mention no variable and cannot be folded (the callee raises)
                helpers.push(format!("(defun R{k} (N) (if N (+ N (R{k} (- N 1))) (x)))"));
                let (a, b) = (rng.range(3, 20), rng.range(21, 40));
                helpers.push(format!("(defun D{k} (A B) (list (sha256 (R{k} {a}) (R{k} {b}) {}) (sha256 (R{k} {b}) (R{k} {a}) B)))", q(this_typo, "A")));
                main_parts.push(format!("(D{k} X Y)"));
            }
            3 => {
                // inline function used several times + a let whose bindings repeat
                let e = arith(rng, &["P", "Q"], 2);
                helpers.push(format!("(defun-inline I{k} (P Q) {e})"));
                helpers.push(format!("(defun J{k} (A B) (let ((u (I{k} A B)) (v (I{k} B {}))) (list u v (I{k} A B) u)))", q(this_typo, "A")));
                main_parts.push(format!("(J{k} X Y)"));
            }
            4 => {
                // lambda capturing an argument, applied twice
                let e = arith(rng, &["A", "z"], 2);
                helpers.push(format!("(defun L{k} (A B) (let ((fn (lambda ((& A) z) {e}))) (list (a fn (list B)) (a fn (list {})))))", q(this_typo, "A")));
                main_parts.push(format!("(L{k} X Y)"));
            }
            5 => {
                // repeated subexpressions under different conditions
                let e1 = arith(rng, &["A", "B"], 2);
                let e2 = arith(rng, &["A", "B"], 2);
                helpers.push(format!("(defun K{k} (A B) (if A (list {e1} {e1} {e2}) (list {e2} {e2} {})))", q(this_typo, "B")));
                main_parts.push(format!("(K{k} X Y)"));
            }
            _ => {
                // assign with dependent bindings and a constant that needs evaluation
                let e1 = arith(rng, &["A"], 2);
                helpers.push(format!("(defconst KK{k} (* {} {}))", rng.range(2, 30), rng.range(2, 30)));
                helpers.push(format!("(defun S{k} (A B) (assign p {e1} r (+ p KK{k}) s (* r {}) (list p r s p)))", q(this_typo, "B")));
                main_parts.push(format!("(S{k} X Y)"));
            }
        }
    }
    format!("(mod (X Y)\n  (include {sigil})\n  {}\n  (list {})\n)\n", helpers.join("\n  "), main_parts.join(" "))
}

struct Target {
    id: String,
    text: String,
    path: String,
    dirs: Vec<String>,
    kind: &'static str,
}

const COUNTERS: [usize; 14] = [0, 8, 9, 98, 99, 998, 999, 9_998, 9_999, 99_999, 1_000_000, 123_456_789, usize::MAX / 2, 1];

fn child_observe(t: &Target, optimize: bool, workdir: &str, tag: &str) -> Option<Obs> {
    // a fresh process: new hash seeds, new counter, new thread
    let f = format!("{workdir}/{tag}.clsp");
    std::fs::write(&f, &t.text).ok()?;
    let exe = std::env::current_exe().ok()?;
    let mut cmd = std::process::Command::new(exe);
    cmd.arg("c05-child").arg(&f).arg(&t.path).arg(if optimize { "1" } else { "0" });
    for d in t.dirs.iter() {
        cmd.arg(d);
    }
    let o = cmd.output().ok()?;
    let j: serde_json::Value = serde_json::from_slice(&o.stdout).ok()?;
    let symbols: BTreeMap<String, String> = j["symbols"].as_object()?.iter().map(|(k, v)| (k.clone(), v.as_str().unwrap_or("").to_string())).collect();
    let result = if let Some(h) = j["hex"].as_str() { Ok(h.to_string()) } else { Err(j["error"].as_str().unwrap_or("").to_string()) };
    Some(Obs { result, symbols })
}

pub fn child_main(cfg: &Cfg) -> i32 {
    let text = std::fs::read_to_string(&cfg.rest[0]).expect("read");
    let dirs: Vec<String> = cfg.rest.iter().skip(3).cloned().collect();
    if let Some(c) = std::env::var("VH_C05_CTR").ok().and_then(|x| x.parse::<usize>().ok()) {
        // start this fresh process from a different value of the fresh-name counter
        ARGNAME_CTR.store(c, Ordering::SeqCst);
    }
    let o = observe(&text, &cfg.rest[1], &dirs, cfg.rest[2] == "1");
    let j = match &o.result {
        Ok(h) => json!({"hex": h, "symbols": o.symbols}),
        Err(e) => json!({"error": e, "symbols": o.symbols}),
    };
    println!("{}", j);
    0
}

fn cl22_stable_without_frontend_opt(t: &Target, optimize: bool) -> bool {
    let mo = ModernOpts { optimize, frontend_opt: false, post_opt: optimize };
    ARGNAME_CTR.store(7, Ordering::SeqCst);
    let a = compile_modern_explicit(&t.text, &t.path, &t.dirs, &mo);
    ARGNAME_CTR.store(123_456, Ordering::SeqCst);
    let b = compile_modern_explicit(&t.text, &t.path, &t.dirs, &mo);
    match (a, b) {
        (Ok(x), Ok(y)) => x.prog == y.prog,
        _ => false,
    }
}

fn diff_desc(a: &Obs, b: &Obs) -> serde_json::Value {
    let r = match (&a.result, &b.result) {
        (Ok(x), Ok(y)) if x != y => {
            let k = x.chars().zip(y.chars()).position(|(p, q)| p != q).unwrap_or(x.len().min(y.len()));
            json!({"bytes_differ_at_hex_char": k, "len_a": x.len(), "len_b": y.len(), "a": trunc(&x[k.saturating_sub(16).min(x.len())..], 80), "b": trunc(&y[k.saturating_sub(16).min(y.len())..], 80)})
        }
        (x, y) if x != y => json!({"a": format!("{x:?}").chars().take(200).collect::<String>(), "b": format!("{y:?}").chars().take(200).collect::<String>()}),
        _ => json!(null),
    };
    let mut sym = vec![];
    for (k, v) in a.symbols.iter() {
        if b.symbols.get(k) != Some(v) {
            sym.push(json!({"key": k, "a": v, "b": b.symbols.get(k)}));
        }
    }
    for (k, v) in b.symbols.iter() {
        if !a.symbols.contains_key(k) {
            sym.push(json!({"key": k, "a": null, "b": v}));
        }
    }
    sym.truncate(4);
    json!({"result": r, "symbols": sym})
}

pub fn run(cfg: &Cfg) -> i32 {
    let mut out = Out::new("C05", cfg);
    let shard = cfg.shard as u64;
    let corpus = load_corpus();
    let workdir = if cfg.outdir.is_empty() { "/tmp".to_string() } else { format!("{}/w{}", cfg.outdir, cfg.shard) };
    std::fs::create_dir_all(&workdir).ok();
    let ngen: usize = std::env::var("VH_NPROG").ok().and_then(|x| x.parse().ok()).unwrap_or(cfg.pick(25, 300));
    // targets: generated programs (weighted towards several helpers) + shipped sources
    let mut targets: Vec<Target> = vec![];
    for i in 0..ngen {
        let classic = i % 6 == 5;
        let case = if classic { classic_case_at(cfg.seed.wrapping_add(5), shard, i as u64) } else { case_at(cfg.seed.wrapping_add(5_000_000), shard, i as u64, &GenCfg::modern()) };
        let d = if classic { Dialect::Classic } else { MODERN[i % 6] };
        if !supported(&case.prog, d) {
            continue;
        }
        targets.push(Target { id: format!("{}-{}", case.id, d.name()), text: case.text(d), path: "*c05*".into(), dirs: vec![], kind: "generated" });
    }
    let mut prng = Rng::derive(cfg.seed, 555, shard);
    for i in 0..cfg.pick(12, 120) {
        let sigil = ["*standard-cl-23*", "*standard-cl-23.1*", "*standard-cl-24*", "*standard-cl-21*", "*standard-cl-23*", "*standard-cl-24*"][i % 6];
        targets.push(Target { id: format!("probe-{}-{}-{}", cfg.seed, shard, i), text: probe_program(&mut prng, sigil, false), path: "*c05*".into(), dirs: vec![], kind: "probe" });
    }
    let nship = cfg.pick(6, 60);
    let mut srng = Rng::derive(cfg.seed, 55, shard);
    for _ in 0..nship {
        if corpus.shipped.is_empty() {
            break;
        }
        let (p, t) = &corpus.shipped[srng.below(corpus.shipped.len())];
        if !p.ends_with(".clsp") {
            continue;
        }
        targets.push(Target { id: format!("shipped:{}", p.trim_start_matches("/repo/")), text: t.clone(), path: p.clone(), dirs: corpus.include_dirs.clone(), kind: "shipped" });
    }
    let mut rng = Rng::derive(cfg.seed, 5, shard);
    for (ti, t) in targets.iter().enumerate() {
        if ti < out.resume_from {
            continue;
        }
        out.checkpoint(ti);
        if !out.begin(&t.id) {
            continue;
        }
        let optimize = ti % 2 == 0;
        // reference observation; skip targets that are too slow for repeated compilation
        let t0 = std::time::Instant::now();
        ARGNAME_CTR.store(0, Ordering::SeqCst);
        let b0 = observe(&t.text, &t.path, &t.dirs, optimize);
        let dt = t0.elapsed().as_millis();
        out.count("evaluations");
        if dt > cfg.pick(1500, 20_000) {
            out.count("skipped_slow_target");
            out.end(&t.id);
            continue;
        }
        out.count(&format!("targets.{}", t.kind));
        let uses_gensym = ARGNAME_CTR.load(Ordering::SeqCst) > 0;
        let mut report = |out: &mut Out, how: &str, o: &Obs, extra: serde_json::Value| {
            // the property speaks about emitted CLVM and symbols; two failures are the same outcome
            // whatever their message texts (which print generated names) say
            let same = match (&o.result, &b0.result) {
                (Err(_), Err(_)) => true,
                _ => *o == b0,
            };
            if !same {
                // listed finding: cl22's frontend optimiser leaks generated names (and values computed
                // from them) into the program.  Attributed only for a cl22 target and only when the same
                // target built with the frontend optimiser off is identical under two counter values.
                let sig = if t.text.contains("*standard-cl-22*") && cl22_stable_without_frontend_opt(t, optimize) {
                    Some("cl22:frontend-optimiser-emits-generated-names")
                } else if !t.text.contains("*strict-cl-21*") && !t.text.contains("*standard-cl-23") && !t.text.contains("*standard-cl-24*")
                    && matches!((&o.result, &b0.result), (Ok(x), Ok(y)) if x.contains("5f245f") && y.contains("5f245f"))
                {
                    // listed finding (non-strict dialects): an identifier that is unbound where it is used
                    // (e.g. a let variable not captured by a lambda) is emitted as a string constant
                    // spelling its *renamed* name x_$_<counter>; the emitted bytes literally contain "_$_"
                    Some("nonstrict:renamed-name-of-uncaptured-variable-emitted")
                } else {
                    None
                };
                out.violation(json!({"kind":"compilation_not_a_pure_function","engine":"c05","sig":sig,"target":t.id,"how":how,"history":extra,"difference":diff_desc(&b0, o),
                    "source":trunc(&t.text, 1500),"optimize":optimize}));
                false
            } else {
                true
            }
        };
        let mut ok = true;
        let mut counter_values = 0;
        let mut seedings = 1;
        // A. histories in this process
        for h in 0..cfg.pick(5, 12) {
            let mut hist = vec![];
            let nprior = rng.below(4);
            for _ in 0..nprior {
                let other = &targets[rng.below(targets.len())];
                let variant = rng.below(6);
                let txt = match variant {
                    4 | 5 => {
                        let sg = ["*standard-cl-23*", "*standard-cl-23.1*", "*standard-cl-24*", "*standard-cl-21*"][rng.below(4)];
                        probe_program(&mut rng, sg, variant == 4)
                    }
                    0 => other.text.clone(),
                    1 => crate::mutate::mutate(&mut rng, &other.text, &t.text).iter().map(|b| *b as char).collect::<String>(),
                    2 => format!("(mod (X) (include *standard-cl-{}*) (defun f (A) (+ A 1)) (f X))", ["21", "22", "23", "23.1", "24"][rng.below(5)]),
                    _ => "(mod (X) (include *standard-cl-23*) (defun-inline g (A) (unbound_name A)) (g X))".to_string(),
                };
                let r = observe(&txt, &other.path, &other.dirs, rng.chance(1, 2));
                hist.push(json!({"prior": trunc(&txt, 80), "outcome": if r.result.is_ok() { "ok" } else { "err" }}));
                out.count("evaluations");
                if !mode_is_new() {
                    out.violation(json!({"kind":"integer_mode_not_restored_after_compilation","engine":"c05","after":trunc(&txt, 300)}));
                }
            }
            let cv = COUNTERS[(h + ti) % COUNTERS.len()];
            ARGNAME_CTR.store(cv, Ordering::SeqCst);
            hist.push(json!({"counter": cv}));
            counter_values += 1;
            seedings += 1;
            let o = observe(&t.text, &t.path, &t.dirs, optimize);
            out.count("evaluations");
            out.count("histories");
            ok &= report(&mut out, "same_process_after_history", &o, json!(hist));
            if !mode_is_new() {
                out.violation(json!({"kind":"integer_mode_not_restored_after_compilation","engine":"c05","after":trunc(&t.text, 300)}));
            }
        }
        // B. fresh processes
        for k in 0..cfg.pick(2, 5) {
            if let Some(o) = child_observe(t, optimize, &workdir, &format!("t{ti}k{k}")) {
                out.count("evaluations");
                out.count("fresh_processes");
                seedings += 1;
                ok &= report(&mut out, "fresh_process", &o, json!(null));
            } else {
                out.inconclusive("child_failed", json!({"target": t.id}));
            }
        }
        // C. concurrent threads
        let nthreads = [2usize, 4, 8, 16][ti % 4].min(cfg.pick(4, 16));
        let handles: Vec<_> = (0..nthreads)
            .map(|_| {
                let (text, path, dirs) = (t.text.clone(), t.path.clone(), t.dirs.clone());
                std::thread::Builder::new().stack_size(256 * 1024 * 1024).spawn(move || {
                    let o = observe(&text, &path, &dirs, optimize);
                    (o, mode_is_new())
                }).expect("spawn")
            })
            .collect();
        for h in handles {
            if let Ok((o, mode_ok)) = h.join() {
                out.count("evaluations");
                out.count("thread_compilations");
                seedings += 1;
                ok &= report(&mut out, "concurrent_thread", &o, json!({"threads": nthreads}));
                if !mode_ok {
                    out.violation(json!({"kind":"integer_mode_not_restored_after_compilation","engine":"c05","after":"thread"}));
                }
            }
        }
        out.end(&t.id);
        if ok && b0.result.is_ok() && uses_gensym && counter_values >= 3 && seedings >= 5 {
            out.nontrivial(fnv_s(&t.text));
        }
        if ok && out.samples.len() < 3 && cfg.shard == 0 {
            out.sample(json!({"target": t.id, "compilations_compared": seedings, "counter_values": counter_values, "threads": nthreads, "bytes": b0.result.as_ref().map(|h| h.len() / 2).unwrap_or(0), "symbol_entries": b0.symbols.len()}));
        }
    }
    let _ = HashMap::<u8, u8>::new();
    let bad = out.get("violations");
    out.finish(cfg);
    if bad > 0 { 1 } else { 0 }
}
