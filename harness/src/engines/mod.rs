use crate::common::*;

pub mod c01;
pub mod c02;
pub mod c03;
pub mod c04;
pub mod c05;
pub mod c06;
pub mod c07;
pub mod c08;
pub mod c09;
pub mod c10;
pub mod c11;
pub mod c12;
pub mod c13;
pub mod c16;
pub mod c17;
pub mod c14;
pub mod c15;
pub mod c20;

pub fn stack_mb(engine: &str) -> usize {
    match engine {
        // the CLI's main thread stack: front ends must survive on this
        "c14" => 8,
        _ => 512,
    }
}

pub fn dispatch(engine: &str, cfg: &Cfg) -> i32 {
    match engine {
        "c01" => c01::run(cfg),
        "c02" => c02::run(cfg),
        "c03" => c03::run(cfg),
        "c04" => c04::run(cfg),
        "c05" => c05::run(cfg),
        "c05-child" => c05::child_main(cfg),
        "c06" => c06::run(cfg),
        "c07" => c07::run(cfg),
        "c08" => c08::run(cfg),
        "c09" => c09::run(cfg),
        "c10" => c10::run(cfg),
        "c11" => c11::run(cfg),
        "c12" => c12::run(cfg),
        "c13" => c13::run(cfg),
        "c16" => c16::run(cfg),
        "c17" => c17::run(cfg),
        "c14" => c14::run(cfg),
        "c15" => c15::run(cfg),
        "c20" => c20::run(cfg),
        "c19-child" => {
            // minimal child for the atomic-output checks: the real file-to-file entry point
            let mut symbols = std::collections::HashMap::new();
            let dirs: Vec<String> = cfg.rest.iter().skip(2).cloned().collect();
            match chialisp::classic::clvm_tools::clvmc::compile_clvm(&cfg.rest[0], &cfg.rest[1], &dirs, &mut symbols) {
                Ok(p) => {
                    println!("OK {p}");
                    0
                }
                Err(e) => {
                    println!("ERR {e}");
                    3
                }
            }
        }
        "cc" => {
            // vh cc FILE [-O] [args-text]: compile a source file the CLI way and optionally run it
            let text = std::fs::read_to_string(&cfg.rest[0]).expect("read");
            let dash_o = cfg.rest.iter().any(|x| x == "-O");
            match crate::repo::compile_cli_modern(&text, None, &[], dash_o) {
                Ok(c) => {
                    println!("{}", c.prog.show());
                    if let Some(a) = cfg.rest.iter().skip(1).find(|x| x.starts_with('(') || x.starts_with("0x")) {
                        let args = crate::repo::classic_assemble(a).expect("args");
                        println!("=> {}", consensus_run(&c.prog, &args).show());
                    }
                }
                Err(e) => println!("ERROR {}", e.msg()),
            }
            0
        }
        _ => {
            eprintln!("unknown engine {engine}");
            2
        }
    }
}
