use crate::common::*;

pub mod c04;
pub mod c06;
pub mod c07;
pub mod c08;
pub mod c09;
pub mod c20;

pub fn stack_mb(engine: &str) -> usize {
    match engine {
        // the CLI's main thread stack: front ends must survive on this
        "c14" => 8,
        _ => 512,
    }
}

pub fn dispatch(engine: &str, cfg: &Cfg) -> i32 {
    match engine {
        "c04" => c04::run(cfg),
        "c06" => c06::run(cfg),
        "c07" => c07::run(cfg),
        "c08" => c08::run(cfg),
        "c09" => c09::run(cfg),
        "c20" => c20::run(cfg),
        _ => {
            eprintln!("unknown engine {engine}");
            2
        }
    }
}
