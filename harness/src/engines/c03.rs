// C03 — classic compiler output computes what the source means; classic and cl21 agree on the
// shared subset.
use serde_json::json;

use crate::common::*;
use crate::engines::c01::{judge_cell_sig, Build};
use crate::gen::*;
use crate::progs::*;
use crate::refi::*;
use crate::repo::*;

pub fn classic_case_at(seed: u64, shard: u64, i: u64) -> Case {
    let mut crng = Rng::derive(seed.wrapping_mul(1_000_003).wrapping_add(33), shard, i);
    let mut gcfg = GenCfg::classic();
    gcfg.classic_ints = true;
    make_case(&mut crng, &gcfg, format!("k{}-{}-{}", seed, shard, i), 5)
}

pub fn build_classic(case: &Case) -> Build {
    let text = case.text(Dialect::Classic);
    Build { dialect: Dialect::Classic, result: compile_lib(&text, "*c03*", &[], true, false) }
}

fn run_unit(out: &mut Out, case: &Case) {
    let cid = format!("{}/classic", case.id);
    if !out.begin(&cid) {
        return;
    }
    let b = build_classic(case);
    let compared = judge_cell_sig(out, "c03", case, &b, "classic", None);
    out.end(&cid);
    // second oracle: the modern cl21 build of the same text (with the sigil added) agrees
    if let Ok(cc) = &b.result {
        let cid2 = format!("{}/cl21", case.id);
        if out.begin(&cid2) {
            let m = compile_cli_modern(&case.text(Dialect::Cl21), None, &[], false);
            out.count("evaluations");
            out.count("cell.classic_vs_cl21");
            if let Ok(mc) = &m {
                for a in case.args.iter() {
                    let x = consensus_run(&cc.prog, a);
                    let y = consensus_run(&mc.prog, a);
                    if let (Outcome::Val(vx), Outcome::Val(vy)) = (&x, &y) {
                        if vx != vy {
                            out.violation(json!({"kind":"classic_and_cl21_builds_differ","engine":"c03","case":case.j(Dialect::Classic),"args":a.show(),"classic":x.show(),"cl21":y.show()}));
                        } else {
                            out.count("agree.classic_cl21");
                        }
                    }
                }
            }
            out.end(&cid2);
        }
    }
    for f in case.features.iter() {
        out.seen("features", f);
    }
    if compared > 0 && case.distinct_ref_values() >= 2 {
        out.nontrivial(case.structural_hash());
    }
}

pub fn run(cfg: &Cfg) -> i32 {
    if cfg.rest.first().map(|x| x == "--replay-case").unwrap_or(false) {
        return replay_case(cfg);
    }
    let mut out = Out::new("C03", cfg);
    let shard = cfg.shard as u64;
    // unit space: parameter sweep 1..40 x 3 shapes x 4 bodies, then generated programs
    let mut sweep: Vec<(usize, usize, usize)> = vec![];
    let mut k = 0u64;
    for n in 1..=40usize {
        for shape in 0..3usize {
            for which in 0..4usize {
                k += 1;
                if k % (cfg.nshards as u64) == shard {
                    sweep.push((n, shape, which));
                }
            }
        }
    }
    let nprog: usize = std::env::var("VH_NPROG").ok().and_then(|x| x.parse().ok()).unwrap_or(cfg.pick(2500, 30000));
    let total = sweep.len() + nprog;
    for u in out.resume_from..total {
        out.checkpoint(u);
        if u < sweep.len() {
            let (n, shape, which) = sweep[u];
            let mut srng = Rng::derive(cfg.seed, 100 + n as u64, (shape * 4 + which) as u64);
            let prog = param_sweep_program(&mut srng, n, shape, which);
            let mut ctr = 0;
            let a1 = distinct_args(&prog.params, &mut ctr);
            let a2 = distinct_args(&prog.params, &mut ctr);
            let features = program_features(&prog);
            let refs = vec![run_program(&prog, &a1), run_program(&prog, &a2)];
            let case = Case { id: format!("sweep-n{n}-s{shape}-w{which}"), prog, features, args: vec![a1, a2], refs };
            out.seen("sweep_param_counts", &format!("{n:02}"));
            run_unit(&mut out, &case);
            continue;
        }
        let i = u - sweep.len();
        let case = classic_case_at(cfg.seed, shard, i as u64);
        if !supported(&case.prog, Dialect::Classic) {
            out.count("skipped_unsupported");
            continue;
        }
        run_unit(&mut out, &case);
        if i < 2 && cfg.shard == 0 {
            out.sample(json!({"source": case.text(Dialect::Classic), "args": case.args.iter().map(|a| a.show()).collect::<Vec<_>>(), "reference": case.refs.iter().map(|r| trunc(&format!("{r:?}"), 80)).collect::<Vec<_>>()}));
        }
    }
    let bad = out.get("violations");
    out.finish(cfg);
    if bad > 0 { 1 } else { 0 }
}

fn replay_case(cfg: &Cfg) -> i32 {
    let id = &cfg.rest[1];
    let parts: Vec<u64> = id.trim_start_matches('k').split('-').map(|x| x.parse().unwrap()).collect();
    let case = classic_case_at(parts[0], parts[1], parts[2]);
    println!("{}", case.text(Dialect::Classic));
    let compile = |p: &Program| compile_lib(&render_program(p, Dialect::Classic, false), "*replay*", &[], true, false);
    let mut failing: Option<(V, String)> = None;
    match compile(&case.prog) {
        Err(e) => {
            println!("compile error: {}", e.msg());
            if let Some((a, _)) = case.args.iter().zip(case.refs.iter()).find(|(_, r)| matches!(r, RefOutcome::Val(_))) {
                failing = Some((a.clone(), "E".to_string()));
            }
        }
        Ok(c) => {
            for (a, r) in case.args.iter().zip(case.refs.iter()) {
                if let RefOutcome::Val(v) = r {
                    let got = consensus_run(&c.prog, a);
                    if got != Outcome::Val(v.clone()) {
                        println!("args {} expected {} got {}", a.show(), v.show(), got.show());
                        failing = Some((a.clone(), "V".to_string()));
                        break;
                    }
                }
            }
        }
    }
    let (arg, class) = match failing {
        Some(x) => x,
        None => {
            println!("no failure reproduced");
            return 0;
        }
    };
    if cfg.rest.iter().any(|x| x == "--shrink") {
        let mut pred = |p: &Program| -> bool {
            if !supported(p, Dialect::Classic) {
                return false;
            }
            match run_program(p, &arg) {
                RefOutcome::Val(v) => match compile(p) {
                    Err(_) => class == "E",
                    Ok(c) => class == "V" && consensus_run(&c.prog, &arg) != Outcome::Val(v),
                },
                _ => false,
            }
        };
        let small = crate::shrink::shrink(&case.prog, &mut pred, 4000);
        println!("---- shrunk ({} -> {} nodes), failing class {} on args {}", crate::shrink::size(&case.prog), crate::shrink::size(&small), class, arg.show());
        println!("{}", render_program(&small, Dialect::Classic, false));
        println!("reference: {:?}", run_program(&small, &arg));
        match compile(&small) {
            Ok(c) => println!("compiled: {}\nrun: {}", c.prog.show(), consensus_run(&c.prog, &arg).show()),
            Err(e) => println!("compile error: {}", e.msg()),
        }
    }
    1
}
