// C11 — every compile entry point produces the same program for the same source.
// This engine prepares the cases on disk and records what the in-process entry points emit; the
// python monitor (monitors/c11.py) adds the real Python binding, the real `run -O` and `cldb`
// binaries and compares everything.
use std::collections::HashMap;

use serde_json::json;

use crate::common::*;
use crate::engines::c01::case_at;
use crate::engines::c03::classic_case_at;
use crate::gen::*;
use crate::repo::*;

fn res_j(r: &Result<Compiled, CErr>) -> serde_json::Value {
    match r {
        Ok(c) => json!({"hex": c.prog.hex()}),
        Err(e) => json!({"error": trunc(&e.msg(), 300)}),
    }
}

pub fn run(cfg: &Cfg) -> i32 {
    let mut out = Out::new("C11", cfg);
    let shard = cfg.shard as u64;
    let n: usize = std::env::var("VH_NPROG").ok().and_then(|x| x.parse().ok()).unwrap_or(cfg.pick(40, 500));
    let base = format!("{}/cases{}", cfg.outdir, cfg.shard);
    std::fs::create_dir_all(&base).expect("mkdir");
    use std::io::Write;
    let mut casefile = std::fs::OpenOptions::new().create(true).append(true).open(format!("{}/{}.cases.jsonl", cfg.outdir, cfg.shard)).expect("open cases");
    for i in out.resume_from..n {
        out.checkpoint(i);
        let classic = i % 7 == 6;
        let case = if classic { classic_case_at(cfg.seed.wrapping_add(11), shard, i as u64) } else { case_at(cfg.seed.wrapping_add(11_000_000), shard, i as u64, &GenCfg::modern()) };
        let d = if classic { Dialect::Classic } else { MODERN[i % 6] };
        if !supported(&case.prog, d) {
            continue;
        }
        let id = format!("{}-{}", case.id, d.name());
        let dir = format!("{base}/{i}");
        let (da, db) = (format!("{dir}/a"), format!("{dir}/b"));
        std::fs::create_dir_all(&da).ok();
        std::fs::create_dir_all(&db).ok();
        // every second case keeps its helpers in an include file found through a two-directory search path
        let split = i % 2 == 1 && !case.prog.helpers.is_empty();
        let (main_text, dirs): (String, Vec<String>) = if split {
            let (m, inc) = render_program_split(&case.prog, d, "helpers.clinc");
            std::fs::write(format!("{db}/helpers.clinc"), inc).expect("write");
            (m, vec![da.clone(), db.clone()])
        } else {
            (case.text(d), vec![da.clone()])
        };
        let main_path = format!("{dir}/main.clsp");
        std::fs::write(&main_path, &main_text).expect("write");
        if !out.begin(&id) {
            continue;
        }
        out.count("evaluations");
        // (1) the library entry point on the text
        let lib = compile_lib(&main_text, &main_path, &dirs, true, false);
        // (3) file-to-file
        let outfile = format!("{dir}/main.hex");
        let mut symbols = HashMap::new();
        let d2 = dirs.clone();
        let mp = main_path.clone();
        let of = outfile.clone();
        let file_res = guard(move || chialisp::classic::clvm_tools::clvmc::compile_clvm(&mp, &of, &d2, &mut symbols));
        let file_j = match file_res {
            Ok(Ok(_)) => json!({"hex": std::fs::read_to_string(&outfile).unwrap_or_default().trim()}),
            Ok(Err(e)) => json!({"error": trunc(&e, 300)}),
            Err(p) => json!({"error": format!("PANIC {p}")}),
        };
        // (4) the CLI's own derivation with -O (modern only)
        let cli_o = if classic { None } else { Some(compile_cli_modern(&main_text, Some(&main_path), &dirs, true)) };
        let cli_plain = if classic { None } else { Some(compile_cli_modern(&main_text, Some(&main_path), &dirs, false)) };
        // counterfactual for the listed cl22 finding (frontend optimiser leaks generated names and values computed from them):
        // is the same program, built with that optimiser off, identical under two values of the name counter?
        let cl22_stable_without_frontend_opt = if d == Dialect::Cl22 {
            use std::sync::atomic::Ordering;
            let mo = ModernOpts { optimize: true, frontend_opt: false, post_opt: true };
            chialisp::compiler::gensym::ARGNAME_CTR.store(7, Ordering::SeqCst);
            let x = compile_modern_explicit(&main_text, &main_path, &dirs, &mo);
            chialisp::compiler::gensym::ARGNAME_CTR.store(123_456, Ordering::SeqCst);
            let y = compile_modern_explicit(&main_text, &main_path, &dirs, &mo);
            matches!((x, y), (Ok(a), Ok(b)) if a.prog == b.prog)
        } else {
            false
        };
        out.end(&id);
        let rec = json!({"id": id, "dialect": d.name(), "dir": dir, "main": main_path, "dirs": dirs, "source": main_text, "split": split, "cl22_stable_without_frontend_opt": cl22_stable_without_frontend_opt,
            "args": case.args.first().map(|a| a.text()).unwrap_or_else(|| "()".into()),
            "lib": res_j(&lib), "file": file_j, "cli_O": cli_o.as_ref().map(res_j), "cli_plain": cli_plain.as_ref().map(res_j)});
        writeln!(casefile, "{}", rec).expect("write case");
        out.seen("dialects", d.name());
    }
    out.finish(cfg);
    0
}
