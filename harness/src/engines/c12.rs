// C12 — the debugger's trace is a faithful account of the real execution.
use std::collections::{BTreeMap, HashMap};
use std::rc::Rc;

use clvmr::allocator::Allocator;
use serde_json::json;

use chialisp::classic::clvm_tools::cmds::{cldb_hierarchy, CldbHierarchyArgs, YamlElement};
use chialisp::classic::clvm_tools::stages::stage_0::{DefaultProgramRunner, TRunProgram};
use chialisp::compiler::cldb::{hex_to_modern_sexp, CldbNoOverride, CldbRun, CldbRunEnv};
use chialisp::compiler::clvm::{start_step, RunStep};
use chialisp::compiler::prims::prim_map;
use chialisp::compiler::sexp::{parse_sexp, SExp};
use chialisp::compiler::srcloc::Srcloc;

use crate::clvmgen::*;
use crate::common::*;
use crate::engines::c01::case_at;
use crate::gen::*;
use crate::repo::*;

thread_local! {
    static CASES: std::cell::RefCell<Vec<String>> = std::cell::RefCell::new(vec![]);
}

fn yaml_to_json(y: &YamlElement) -> serde_json::Value {
    match y {
        YamlElement::String(s) => json!(s),
        YamlElement::Array(v) => serde_json::Value::Array(v.iter().map(yaml_to_json).collect()),
        YamlElement::Subtree(m) => serde_json::Value::Object(m.iter().map(|(k, v)| (k.clone(), yaml_to_json(v))).collect()),
    }
}

fn text_to_v(t: &str) -> Option<V> {
    let forms = parse_sexp(Srcloc::start("*row*"), t.bytes()).ok()?;
    if forms.len() != 1 {
        return None;
    }
    sexp_to_v(forms[0].clone()).ok()
}

pub struct Trace {
    pub rows: Vec<BTreeMap<String, String>>,
    /// for each emitted row: the real operator/arguments of the step that produced it (if it was an operator result)
    pub actual: Vec<Option<(V, V)>>,
    /// args of `i` steps seen so far (they never emit a row of their own)
    pub i_args: Vec<V>,
    pub ended: bool,
    pub final_value: Option<V>,
}

pub fn trace_program(prog: Rc<SExp>, env: Rc<SExp>, lines: Vec<String>, symbols: HashMap<String, String>, limit: usize) -> Result<Trace, String> {
    guard(move || {
        let mut a = Allocator::new();
        let runner: Rc<dyn TRunProgram> = Rc::new(DefaultProgramRunner::new());
        let cenv = CldbRunEnv::new(None, Rc::new(lines), Box::new(CldbNoOverride::new_symbols(symbols)));
        let mut run = CldbRun::new(runner, prim_map(), Box::new(cenv), start_step(prog, env));
        let mut t = Trace { rows: vec![], actual: vec![], i_args: vec![], ended: false, final_value: None };
        let mut last_op: Option<(V, V)> = None;
        let mut n = 0;
        while !run.is_ended() && n < limit {
            n += 1;
            let r = run.step(&mut a);
            // what the machine is actually doing now
            if let RunStep::Op(head, _c, args, None, _p) = run.current_step() {
                if let (Ok(h), Ok(av)) = (sexp_to_v(head), sexp_to_v(args)) {
                    if h == V::A(vec![3]) {
                        t.i_args.push(av.clone());
                    }
                    last_op = Some((h, av));
                }
            }
            if let Some(row) = r {
                t.rows.push(row);
                t.actual.push(last_op.clone());
            }
        }
        t.ended = run.is_ended();
        t.final_value = run.final_result().and_then(|f| sexp_to_v(f).ok());
        t
    })
}

fn strip_locations(r: &BTreeMap<String, String>) -> BTreeMap<String, String> {
    r.iter().filter(|(k, _)| !k.ends_with("-Location") && !k.ends_with("Location")).map(|(k, v)| (k.clone(), v.clone())).collect()
}

fn check_rows(out: &mut Out, ctx: &serde_json::Value, t: &Trace, view: &str) -> bool {
    let mut ok = true;
    let mut expect_row = 0i64;
    for (_ri, row) in t.rows.iter().enumerate() {
        if let Some(rn) = row.get("Row") {
            match rn.parse::<i64>() {
                Ok(n) => {
                    if view == "plain" && n != expect_row {
                        ok = false;
                        out.violation(json!({"kind":"rows_not_numbered_consecutively","engine":"c12","view":view,"expected":expect_row,"got":n,"ctx":ctx}));
                    }
                    expect_row = n + 1;
                }
                Err(_) => {
                    ok = false;
                    out.violation(json!({"kind":"row_number_not_a_number","engine":"c12","row":rn,"ctx":ctx}));
                }
            }
        }
        if let (Some(op), Some(args), Some(val)) = (row.get("Operator"), row.get("Arguments"), row.get("Value")) {
            out.count("rows_with_operator_arguments_value");
            let parsed = (text_to_v(op), text_to_v(args), text_to_v(val));
            let (opv, argv, valv) = match parsed {
                (Some(V::A(o)), Some(a), Some(v)) => (o, a, v),
                _ => {
                    out.count("rows_not_checkable_from_text");
                    continue;
                }
            };
            let arglist = match argv.proper_list() {
                Some(l) => l,
                None => {
                    out.count("rows_not_checkable_from_text");
                    continue;
                }
            };
            if opv == vec![1u8] {
                continue;
            }
            let truth = consensus_apply_op(&opv, &arglist);
            if truth == Outcome::Val(valv.clone()) {
                out.count("rows_true_of_consensus");
            } else {
                ok = false;
                // listed finding: the stepper gives the i operator no result of its own, so the row it opened
                // (Operator 3 with its real arguments) is closed by the next value the machine produces, whatever
                // that is.  Attributed only when the row's operator is i and its Arguments are exactly those of an
                // i step the machine really executed.
                let i_args_seen = t.i_args.iter().any(|ia| *ia == argv);
                let sig = if opv == vec![3u8] && i_args_seen {
                    Some("cldb:i-row-closed-by-the-value-of-a-later-step")
                } else if opv == vec![2u8] && i_args_seen && (row.contains_key("Env") || row.contains_key("Function-Context")) {
                    // same defect, usual guise in compiled code: (a (i c x y) 1) — the apply step relabels the row
                    // the i step opened (Operator becomes 2, Env/Env-Args are added) but i's Arguments stay in it
                    Some("cldb:apply-row-keeps-arguments-of-the-preceding-i-step")
                } else {
                    None
                };
                out.violation(json!({"kind":"row_is_not_true_of_the_consensus_evaluator","engine":"c12","sig":sig,"view":view,"row":row,"operator":hex::encode(&opv),"arguments":argv.show(),"reported_value":valv.show(),"consensus":truth.show(),"ctx":ctx}));
            }
        }
    }
    ok
}

fn collect_rows(y: &YamlElement, out: &mut Vec<BTreeMap<String, String>>) {
    match y {
        YamlElement::String(_) => {}
        YamlElement::Array(v) => v.iter().for_each(|x| collect_rows(x, out)),
        YamlElement::Subtree(m) => {
            let flat: BTreeMap<String, String> = m.iter().filter_map(|(k, v)| if let YamlElement::String(s) = v { Some((k.clone(), s.clone())) } else { None }).collect();
            if flat.contains_key("Operator") || flat.contains_key("Final") || flat.contains_key("Failure") || flat.contains_key("Throw") {
                out.push(flat);
            }
            m.values().for_each(|x| collect_rows(x, out));
        }
    }
}

fn judge(out: &mut Out, id: &str, prog: &V, env: &V, source: Option<&str>, symbols: &HashMap<String, String>, stratum: &str) {
    out.count("evaluations");
    out.count(&format!("stratum.{stratum}"));
    let truth = consensus_run_cap(prog, env, 300_000_000);
    if truth == Outcome::CostCap {
        out.inconclusive("costcap", json!({"case": id}));
        return;
    }
    let (ps, es) = match (natural_sexp(prog), natural_sexp(env)) {
        (Ok(p), Ok(e)) => (p, e),
        _ => return,
    };
    let lines: Vec<String> = source.map(|s| s.lines().map(|x| x.to_string()).collect()).unwrap_or_default();
    let ctx = json!({"case": id, "stratum": stratum, "program": trunc(&prog.show(), 300), "program_hex": trunc(&prog.hex(), 400), "env": trunc(&env.show(), 200), "source": source.map(|s| trunc(s, 800))});
    let t = match trace_program(ps.clone(), es.clone(), lines.clone(), symbols.clone(), 400_000) {
        Ok(t) => t,
        Err(p) => {
            out.violation(json!({"kind":"debugger_panic","engine":"c12","panic":p,"ctx":ctx}));
            return;
        }
    };
    if !t.ended {
        out.inconclusive("step_limit", json!({"case": id}));
        return;
    }
    let mut ok = check_rows(out, &ctx, &t, "plain");
    let last = t.rows.last().cloned().unwrap_or_default();
    match &truth {
        Outcome::Val(v) => {
            let final_ok = match last.get("Final") {
                Some(f) => text_to_v(f).map(|x| x == *v).unwrap_or(false) || t.final_value.as_ref() == Some(v),
                None => false,
            };
            if !final_ok {
                ok = false;
                out.violation(json!({"kind":"final_value_differs_from_consensus","engine":"c12","last_row":last,"consensus":v.show(),"ctx":ctx}));
            }
        }
        _ => {
            if !(last.contains_key("Failure") || last.contains_key("Throw")) {
                ok = false;
                out.violation(json!({"kind":"no_failure_entry_though_consensus_fails","engine":"c12","last_row":last,"consensus":truth.show(),"ctx":ctx}));
            }
        }
    }
    // hex-supplied program behaves identically (modulo location fields)
    let hexs = prog.hex();
    let sy = symbols.clone();
    let from_hex = guard(move || {
        let mut a = Allocator::new();
        hex_to_modern_sexp(&mut a, &sy, Srcloc::start("*program*"), &hexs).map_err(|e| format!("{e:?}"))
    });
    match from_hex {
        Ok(Ok(hp)) => match trace_program(hp, es.clone(), vec![], symbols.clone(), 400_000) {
            Ok(th) => {
                let a: Vec<_> = t.rows.iter().map(strip_locations).collect();
                let b: Vec<_> = th.rows.iter().map(strip_locations).collect();
                if a != b {
                    ok = false;
                    let k = a.iter().zip(b.iter()).position(|(x, y)| x != y).unwrap_or(a.len().min(b.len()));
                    out.violation(json!({"kind":"hex_supplied_program_traces_differently","engine":"c12","first_differing_row":k,"source_row":a.get(k),"hex_row":b.get(k),"rows_source":a.len(),"rows_hex":b.len(),"ctx":ctx}));
                } else {
                    out.count("hex_traces_identical");
                }
            }
            Err(p) => out.violation(json!({"kind":"debugger_panic","engine":"c12","panic":p,"ctx":ctx})),
        },
        Ok(Err(m)) => out.violation(json!({"kind":"hex_program_rejected","engine":"c12","error":m,"ctx":ctx})),
        Err(p) => out.violation(json!({"kind":"debugger_panic","engine":"c12","panic":p,"ctx":ctx})),
    }
    // hierarchical view
    let sy2 = symbols.clone();
    let (ps2, es2) = (ps.clone(), es.clone());
    let h = guard(move || {
        let runner: Rc<dyn TRunProgram> = Rc::new(DefaultProgramRunner::new());
        cldb_hierarchy(CldbHierarchyArgs { runner, prim_map: prim_map(), input_file_name: None, lines: Rc::new(lines), symbol_table: Rc::new(sy2), prog: ps2, args: es2, flags: 0 })
    });
    match h {
        Ok(tree) => {
            let mut rows = vec![];
            for m in tree.iter() {
                collect_rows(&YamlElement::Subtree(m.clone()), &mut rows);
            }
            out.count("hierarchy_views");
            let want: usize = std::env::var("VH_C12_BINCASES").ok().and_then(|x| x.parse().ok()).unwrap_or(40);
            if symbols.is_empty() && CASES.with(|c| c.borrow().len()) < want && prog.hex().len() < 20000 {
                let rec = json!({"id": id, "prog_hex": prog.hex(), "env_hex": env.hex(), "rows": t.rows.iter().map(strip_locations).collect::<Vec<_>>(),
                    "tree": tree.iter().map(|m| yaml_to_json(&YamlElement::Subtree(m.clone()))).collect::<Vec<_>>(), "consensus": truth.show()});
                CASES.with(|c| c.borrow_mut().push(rec.to_string()));
            }
            // the hierarchical view must end the same way: a Final equal to the consensus value, or a failure entry
            // every frame reports its own result as "Final"; the run's result is the last one in document order (outermost frame)
            let tree_final = rows.iter().rev().find_map(|r| r.get("Final").cloned());
            let tree_fails = rows.iter().any(|r| r.contains_key("Failure") || r.contains_key("Throw"));
            match &truth {
                Outcome::Val(v) => {
                    if tree_fails || !tree_final.as_ref().map(|f| text_to_v(f).map(|x| x == *v).unwrap_or(false)).unwrap_or(false) {
                        ok = false;
                        out.violation(json!({"kind":"tree_view_final_differs_from_consensus","engine":"c12","tree_final":tree_final,"tree_has_failure_entry":tree_fails,"consensus":v.show(),"ctx":ctx}));
                    }
                }
                _ => {
                    if !tree_fails {
                        ok = false;
                        // listed finding: HierarchialRunner only keeps the failure row when the failing step belongs to the
                        // outermost frame; attributed when the plain view of the same run does end in a failure entry
                        let plain_fails = last.contains_key("Failure") || last.contains_key("Throw");
                        // (frames that completed before the failure still show their own Final, so a Final may be present)
                        let sig = if plain_fails { Some("cldb-tree:failure-entry-missing") } else { None };
                        out.violation(json!({"kind":"tree_view_has_no_failure_entry_though_consensus_fails","engine":"c12","sig":sig,"tree_final":tree_final,"consensus":truth.show(),"ctx":ctx}));
                    }
                }
            }
            let ht = Trace { rows, actual: vec![], i_args: t.i_args.clone(), ended: true, final_value: None };
            ok &= check_rows(out, &ctx, &ht, "tree");
        }
        Err(p) => {
            ok = false;
            out.violation(json!({"kind":"debugger_panic","engine":"c12","view":"tree","panic":p,"ctx":ctx}));
        }
    }
    if ok && t.rows.len() >= 3 {
        out.nontrivial(fnv_s(&format!("{}|{}", prog.hex(), env.hex())));
        if out.samples.len() < 3 {
            out.sample(json!({"case": id, "rows": t.rows.len(), "first_rows": t.rows.iter().take(3).map(strip_locations).collect::<Vec<_>>(), "final": last.get("Final")}));
        }
    }
}

pub fn run(cfg: &Cfg) -> i32 {
    if cfg.rest.first().map(|x| x == "--trace").unwrap_or(false) {
        // vh c12 --trace <program hex> <env hex>: print the plain rows and the consensus result
        let prog = V::from_ser(&hex::decode(&cfg.rest[1]).unwrap()).unwrap();
        let env = V::from_ser(&hex::decode(&cfg.rest[2]).unwrap()).unwrap();
        println!("consensus: {}", consensus_run_cap(&prog, &env, 300_000_000).show());
        let t = trace_program(natural_sexp(&prog).unwrap(), natural_sexp(&env).unwrap(), vec![], HashMap::new(), 100_000).unwrap();
        for (r, a) in t.rows.iter().zip(t.actual.iter()) {
            println!("{}   ACTUAL {:?}", serde_json::to_string(&strip_locations(r)).unwrap(), a.as_ref().map(|(h, a)| format!("{} {}", h.show(), a.show())));
        }
        return 0;
    }
    let mut out = Out::new("C12", cfg);
    let shard = cfg.shard as u64;
    let nprog: usize = std::env::var("VH_NPROG").ok().and_then(|x| x.parse().ok()).unwrap_or(cfg.pick(60, 800));
    // A. compiled generated programs, every dialect, with their symbols
    for i in out.resume_from..nprog {
        out.checkpoint(i);
        let case = case_at(cfg.seed.wrapping_add(12_000_000), shard, i as u64, &GenCfg::modern());
        let d = MODERN[i % 6];
        if !supported(&case.prog, d) {
            continue;
        }
        let text = case.text(d);
        let id = format!("{}/{}", case.id, d.name());
        if !out.begin(&id) {
            continue;
        }
        let built = if d == Dialect::Cl22 {
            compile_modern_explicit(&text, "*command*", &[], &ModernOpts { optimize: false, frontend_opt: false, post_opt: false })
        } else {
            compile_cli_modern(&text, None, &[], i % 2 == 0)
        };
        if let Ok(c) = built {
            for (k, a) in case.args.iter().take(2).enumerate() {
                let syms = if k == 0 { c.symbols.clone() } else { HashMap::new() };
                judge(&mut out, &id, &c.prog, a, Some(&text), &syms, "compiled_programs");
            }
            // ill-fitting arguments, with the symbol table: failures inside named function frames
            if let Some(a) = case.args.first() {
                let mut mrng = Rng::derive(cfg.seed, 1212, i as u64);
                let bad = mutate_args(&mut mrng, a);
                judge(&mut out, &id, &c.prog, &bad, Some(&text), &c.symbols, "compiled_programs_ill_fitting_arguments");
            }
        }
        out.end(&id);
    }
    // B. raw CLVM
    let mut rng = Rng::derive(cfg.seed, 12, shard);
    let ops = full_ops();
    for i in 0..cfg.pick(400, 6000) {
        let mut paths = vec![];
        let depth = 2 + rng.below(4);
        let prog = rand_expr(&mut rng, depth, &ops, 0, &mut paths);
        let env = env_for_paths(&paths, 1);
        judge(&mut out, &format!("raw-{i}"), &prog, &env, None, &HashMap::new(), "raw_clvm");
    }
    // C. wrong number of arguments for the operators the stepper executes itself (a i c f r) and for l, =, x:
    //    the debugger must end in a failure entry exactly when clvm fails
    for i in 0..cfg.pick(150, 3000) {
        let mut paths = vec![];
        let n = rng.below(5);
        let args: Vec<V> = (0..n).map(|_| rand_expr(&mut rng, 2, &ops, 0, &mut paths)).collect();
        let head = *rng.pick(&[2u8, 3, 4, 5, 6, 7, 8, 9]);
        let bad = V::cons(V::A(vec![head]), V::list(&args));
        let prog = match rng.below(4) {
            0 | 1 => bad,
            2 => V::list(&[V::A(vec![4]), quote(V::int(9)), bad]),
            _ => {
                paths.push(vec![5]);
                V::list(&[V::A(vec![2]), V::list(&[V::A(vec![3]), V::A(vec![5]), quote(bad), quote(quote(V::int(1)))]), V::A(vec![1])])
            }
        };
        let env = env_for_paths(&paths, 1);
        judge(&mut out, &format!("arity-{i}"), &prog, &env, None, &HashMap::new(), "raw_wrong_arity");
    }
    // pinned witness: failure inside a named function frame (tree view)
    if cfg.shard == 0 {
        let text = "(mod (X) (include *standard-cl-21*) (defun f (A) (+ A (q 1 2))) (f X))";
        if let Ok(c) = compile_cli_modern(text, None, &[], false) {
            judge(&mut out, "pinned-failure-in-frame", &c.prog, &V::list(&[V::int(5)]), Some(text), &c.symbols, "pinned");
        }
    }
    // pinned witness of the listed finding
    if cfg.shard == 0 {
        let w = V::from_ser(&hex::decode("ff04ffff05ffff04ff07ffff02ffff01ff0182826effff04ff03ff8080808080ffff03ff80ff17ffff0affff01820080ffff0180808080").unwrap()).unwrap();
        let e = V::from_ser(&hex::decode("ff6bff72ff79ffff82008082008782008e").unwrap()).unwrap();
        judge(&mut out, "pinned-i", &w, &e, None, &HashMap::new(), "pinned");
    }
    let bad = out.get("violations");
    CASES.with(|c| {
        let _ = std::fs::write(format!("{}/{}.cases.jsonl", cfg.outdir, cfg.shard), c.borrow().join("\n") + "\n");
    });
    out.finish(cfg);
    if bad > 0 { 1 } else { 0 }
}
