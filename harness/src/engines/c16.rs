// C16 — the REPL / partial evaluator only ever returns what the compiled program would.
use std::rc::Rc;

use clvmr::allocator::Allocator;
use serde_json::json;

use chialisp::classic::clvm_tools::stages::stage_0::{DefaultProgramRunner, TRunProgram};
use chialisp::compiler::compiler::{compile_file, DefaultCompilerOpts};
use chialisp::compiler::comptypes::{BodyForm, CompilerOpts};
use chialisp::compiler::repl::Repl;
use std::collections::HashMap;

use crate::common::*;
use crate::engines::c01::case_at;
use crate::gen::*;
use crate::progs::*;
use crate::repo::*;

/// What the REPL answered for one input
#[derive(Debug, Clone)]
enum Answer {
    Constant(V),
    Residual(String, Rc<chialisp::compiler::sexp::SExp>),
    Error(String),
    Nothing,
}

struct Session {
    repl: Repl,
    a: Allocator,
}

impl Session {
    fn new() -> Session {
        // exactly what the repl binary does
        let runner: Rc<dyn TRunProgram> = Rc::new(DefaultProgramRunner::new());
        let opts: Rc<dyn CompilerOpts> = Rc::new(DefaultCompilerOpts::new("*program*"));
        Session { repl: Repl::new(opts, runner), a: Allocator::new() }
    }
    fn line(&mut self, text: &str) -> Answer {
        let t = text.replace('\n', " ");
        let repl = &mut self.repl;
        let a = &mut self.a;
        match guard(move || repl.process_line(a, t)) {
            Err(p) => Answer::Error(format!("PANIC {p}")),
            Ok(Err(e)) => Answer::Error(format!("{}: {}", e.0, e.1)),
            Ok(Ok(None)) => Answer::Nothing,
            Ok(Ok(Some(b))) => match &*b {
                BodyForm::Quoted(s) => match sexp_to_v(Rc::new(s.clone())) {
                    Ok(v) => Answer::Constant(v),
                    Err(m) => Answer::Error(format!("HARNESS {m}")),
                },
                other => Answer::Residual(other.to_sexp().to_string(), other.to_sexp()),
            },
        }
    }
}

/// the modern compiler with the options of the REPL (no dialect sigil)
fn compile_like_repl(text: &str) -> Result<V, String> {
    let t = text.to_string();
    match guard(move || -> Result<V, String> {
        let mut a = Allocator::new();
        let runner: Rc<dyn TRunProgram> = Rc::new(DefaultProgramRunner::new());
        let opts: Rc<dyn CompilerOpts> = Rc::new(DefaultCompilerOpts::new("*program*"));
        let mut symbols = HashMap::new();
        let res = compile_file(&mut a, runner, opts, &t, &mut symbols).map_err(|e| format!("{}: {}", e.0, e.1))?;
        sexp_to_v(Rc::new(res))
    }) {
        Ok(r) => r,
        Err(p) => Err(format!("PANIC {p}")),
    }
}

fn bind(pat: &Pat, v: &V, out: &mut Vec<(String, V)>) {
    match pat {
        Pat::Nil => {}
        Pat::Var(n, _) => out.push((n.clone(), v.clone())),
        Pat::At(n, q) => {
            out.push((n.clone(), v.clone()));
            bind(q, v, out);
        }
        Pat::Pair(a, b) => {
            let (l, r) = match v {
                V::P(l, r) => ((**l).clone(), (**r).clone()),
                _ => (V::nil(), V::nil()),
            };
            bind(a, &l, out);
            bind(b, &r, out);
        }
    }
}

fn fits(pat: &Pat, v: &V) -> bool {
    match pat {
        Pat::Nil | Pat::Var(_, _) => true,
        Pat::At(_, q) => fits(q, v),
        Pat::Pair(a, b) => match v {
            V::P(l, r) => fits(a, l) && fits(b, r),
            _ => false,
        },
    }
}


/// (cx_main <quoted top-level items> [&rest <quoted tail>]) for an argument tree that fits the parameter pattern
fn wrapper_call(pat: &Pat, a: &V) -> Option<String> {
    let (items, tail) = pat.top_items();
    let mut cur = a.clone();
    let mut parts = vec![];
    for _ in items.iter() {
        match cur {
            V::P(l, r) => {
                parts.push(format!("(q . {})", render_data(&l)));
                cur = (*r).clone();
            }
            _ => return None,
        }
    }
    let mut s = format!("(cx_main {}", parts.join(" "));
    if tail.is_some() {
        s.push_str(&format!(" &rest (q . {})", render_data(&cur)));
    }
    s.push(')');
    Some(s)
}

/// the same session with every let / assign form lambda-lifted into inline functions (counterfactual for the listed finding)
fn twin_answer(case: &Case, d: Dialect, a: &V) -> Option<V> {
    let t = crate::engines::c17::lift_program(&case.prog)?;
    let mut s = Session::new();
    for h in t.helpers.iter() {
        if let Answer::Error(_) = s.line(&render_helper(h, d)) {
            return None;
        }
    }
    if let Answer::Error(_) = s.line(&format!("(defun-inline cx_main {} {})", t.params.render(), render_expr(&t.body, d))) {
        return None;
    }
    match s.line(&wrapper_call(&t.params, a)?) {
        Answer::Constant(v) => Some(v),
        _ => None,
    }
}

/// open expressions: does a branch of some conditional of the main expression mention a variable (a parameter, which is
/// free there, or a let / lambda bound one, whose value mentions the free parameters)?  Then the listed finding applies.
fn branch_mentions_a_variable(p: &Program) -> bool {
    let mut m = std::collections::BTreeSet::new();
    crate::refi::free_vars(&p.body, &mut m);
    let consts: Vec<String> = p.helpers.iter().filter_map(|h| match h {
        Helper::ConstSimple(n, _, _) | Helper::ConstData(n, _) | Helper::ConstComplex(n, _, _) => Some(n.clone()),
        _ => None,
    }).collect();
    let names: Vec<String> = m.into_iter().filter(|n| !consts.contains(n)).collect();
    name_in_branch(&p.body, &names)
}

fn let_bound_names(e: &Expr, out: &mut Vec<String>) {
    match e {
        Expr::Lit(_) | Expr::Var(_) | Expr::Quote(_) | Expr::ModVal(_) => {}
        Expr::Prim(_, a) | Expr::List(a) | Expr::MacroCall(_, a) => a.iter().for_each(|x| let_bound_names(x, out)),
        Expr::If(a, b, c) => {
            let_bound_names(a, out);
            let_bound_names(b, out);
            let_bound_names(c, out);
        }
        Expr::Call(_, a, r) => {
            a.iter().for_each(|x| let_bound_names(x, out));
            if let Some(r) = r {
                let_bound_names(r, out);
            }
        }
        Expr::Let(_, bs, body) => {
            for (p, x) in bs {
                let mut v = vec![];
                p.vars(&mut v);
                out.extend(v.into_iter().map(|x| x.0));
                let_bound_names(x, out);
            }
            let_bound_names(body, out);
        }
        Expr::Lambda(_, _, b) => let_bound_names(b, out),
        Expr::Apply(a, b) => {
            let_bound_names(a, out);
            let_bound_names(b, out);
        }
        Expr::QQ(_) => {}
    }
}

/// the shape the listed let finding needs: somewhere in the program a branch of a conditional mentions a let / assign bound name
/// (`extra`: names bound by a let the harness itself put around the expression)
pub fn branch_mentions_a_let_bound_name(p: &Program, extra: &[String]) -> bool {
    let mut names: Vec<String> = extra.to_vec();
    let_bound_names(&p.body, &mut names);
    for h in p.helpers.iter() {
        if let Helper::Fun(f) = h {
            let_bound_names(&f.body, &mut names);
        }
    }
    if names.is_empty() {
        return false;
    }
    name_in_branch(&p.body, &names) || p.helpers.iter().any(|h| matches!(h, Helper::Fun(f) if name_in_branch(&f.body, &names)))
}

fn has_gensym_atom(v: &V) -> bool {
    match v {
        V::A(b) => b.windows(3).any(|w| w == b"_$_"),
        V::P(a, b) => has_gensym_atom(a) || has_gensym_atom(b),
    }
}

/// does a branch of a conditional (if, all/any, a macro call) in this expression mention one of the names
fn name_in_branch(e: &Expr, names: &[String]) -> bool {
    let mentions = |x: &Expr| {
        let mut m = std::collections::BTreeSet::new();
        crate::refi::free_vars(x, &mut m);
        names.iter().any(|n| m.contains(n))
    };
    match e {
        Expr::Lit(_) | Expr::Var(_) | Expr::Quote(_) | Expr::ModVal(_) => false,
        Expr::If(c, t, f) => mentions(t) || mentions(f) || name_in_branch(c, names),
        Expr::Prim(op, a) => (matches!(*op, "all" | "any") && a.iter().any(|x| mentions(x))) || a.iter().any(|x| name_in_branch(x, names)),
        Expr::MacroCall(_, a) => a.iter().any(|x| mentions(x)),
        Expr::List(a) => a.iter().any(|x| name_in_branch(x, names)),
        Expr::Call(_, a, r) => a.iter().any(|x| name_in_branch(x, names)) || r.as_ref().map(|x| name_in_branch(x, names)).unwrap_or(false),
        Expr::Let(_, bs, body) => bs.iter().any(|(_, x)| name_in_branch(x, names)) || name_in_branch(body, names),
        Expr::Lambda(_, _, b) => name_in_branch(b, names),
        Expr::Apply(a, b) => name_in_branch(a, names) || name_in_branch(b, names),
        Expr::QQ(_) => mentions(e),
    }
}

/// (mod PARAMS definitions BODY) compiled with the REPL's options, BODY given as the s-expression the evaluator
/// returned (no printing and re-reading in between: what is compiled is the residual itself)
fn compile_with_body(shell_text: &str, body: Rc<chialisp::compiler::sexp::SExp>) -> Result<V, String> {
    use chialisp::compiler::sexp::{parse_sexp, SExp};
    use chialisp::compiler::srcloc::Srcloc;
    let t = shell_text.to_string();
    match guard(move || -> Result<V, String> {
        let mut a = Allocator::new();
        let runner: Rc<dyn TRunProgram> = Rc::new(DefaultProgramRunner::new());
        let opts: Rc<dyn CompilerOpts> = Rc::new(DefaultCompilerOpts::new("*program*"));
        let forms = parse_sexp(Srcloc::start("*program*"), t.bytes()).map_err(|e| format!("{}: {}", e.0, e.1))?;
        // replace the last element of the mod form (the placeholder body) by the residual
        fn replace_last(l: &Rc<SExp>, body: &Rc<SExp>) -> Rc<SExp> {
            match &**l {
                SExp::Cons(loc, a, b) => match &**b {
                    SExp::Nil(_) => Rc::new(SExp::Cons(loc.clone(), body.clone(), b.clone())),
                    _ => Rc::new(SExp::Cons(loc.clone(), a.clone(), replace_last(b, body))),
                },
                _ => l.clone(),
            }
        }
        let prog = replace_last(&forms[0], &body);
        let mut symbols = HashMap::new();
        let srcloc = Srcloc::start("*program*");
        let _mode = chialisp::compiler::clvm::NewStyleIntConversion::new(opts.dialect().int_fix);
        let mut cw = chialisp::compiler::CompileContextWrapper::new(&mut a, runner, &mut symbols, chialisp::compiler::optimize::get_optimizer(&srcloc, opts.clone()).map_err(|e| format!("{}: {}", e.0, e.1))?);
        let res = chialisp::compiler::compiler::compile_pre_forms(&mut cw.context, opts, &[prog]).map_err(|e| format!("{}: {}", e.0, e.1))?;
        sexp_to_v(Rc::new(res))
    }) {
        Ok(r) => r,
        Err(p) => Err(format!("PANIC {p}")),
    }
}

fn program_text(params: &str, defs: &[String], body: &str) -> String {
    format!("(mod {}\n  {}\n  {}\n)\n", params, defs.join("\n  "), body)
}

pub fn run(cfg: &Cfg) -> i32 {
    if cfg.rest.first().map(|x| x == "--print").unwrap_or(false) {
        // vh c16 --print s<seed>-<shard>-<i>
        let parts: Vec<u64> = cfg.rest[1].trim_start_matches('s').split('-').map(|x| x.parse().unwrap()).collect();
        let mut gcfg = GenCfg::modern();
        gcfg.allow_nested_mod = false;
        gcfg.allow_zero_led = false;
        let case = case_at(parts[0], parts[1], parts[2], &gcfg);
        println!("{}", case.text(Dialect::Cl21));
        if let Some(t) = crate::engines::c17::lift_program(&case.prog) {
            println!("---- twin\n{}", render_program(&t, Dialect::Cl21, false));
            for a in case.args.iter().take(2) {
                println!("args {} -> twin answer {:?}", a.show(), twin_answer(&case, Dialect::Cl21, a).map(|v| v.show()));
            }
        } else {
            println!("---- no twin");
        }
        return 0;
    }
    let mut out = Out::new("C16", cfg);
    let shard = cfg.shard as u64;
    let nprog: usize = std::env::var("VH_NPROG").ok().and_then(|x| x.parse().ok()).unwrap_or(cfg.pick(150, 2500));
    let mut gcfg = GenCfg::modern();
    gcfg.allow_nested_mod = false;
    gcfg.allow_zero_led = false;
    let d = Dialect::Cl21; // rendering only: the REPL and the comparison build both run without a sigil
    for i in out.resume_from..nprog {
        out.checkpoint(i);
        // every third program is generated without conditionals, macros or recursion: none of the listed evaluator findings can
        // apply there, so the partly-open comparisons of those programs are judged without any attribution
        let cond_free = i % 3 == 2;
        let case = if cond_free {
            let mut g = gcfg.clone();
            g.allow_if = false;
            g.allow_macros = false;
            case_at(cfg.seed.wrapping_add(16_500_000), shard, i as u64, &g)
        } else {
            case_at(cfg.seed.wrapping_add(16_000_000), shard, i as u64, &gcfg)
        };
        if cond_free {
            out.count("programs.generated_without_conditionals");
        }
        // the REPL takes defun, defun-inline, defconstant and defmacro as definitions
        if case.prog.helpers.iter().any(|h| matches!(h, Helper::ConstComplex(_, _, _))) || has_clo_param(&case.prog.params) {
            out.count("skipped.needs_defconst_or_closure_parameter");
            continue;
        }
        let id = case.id.clone();
        if !out.begin(&id) {
            continue;
        }
        let mut rng = Rng::derive(cfg.seed, 1616 + shard, i as u64);
        let mut defs: Vec<String> = case.prog.helpers.iter().map(|h| render_helper(h, d)).collect();
        let body = render_expr(&case.prog.body, d);
        let params = case.prog.params.render();
        // the compiled program, built the way the REPL is configured
        let original = match compile_like_repl(&program_text(&params, &defs, &body)) {
            Ok(p) => p,
            Err(_) => {
                out.count("skipped.program_does_not_compile_without_sigil");
                out.end(&id);
                continue;
            }
        };
        out.count("programs");
        // definitions in any order that defines before use: functions may come in any order, macros and constants first
        if rng.chance(1, 2) {
            let (mut early, mut late): (Vec<String>, Vec<String>) = defs.drain(..).partition(|t| t.starts_with("(defmacro") || t.starts_with("(defconstant"));
            rng.shuffle(&mut late);
            early.append(&mut late);
            defs = early;
            out.count("sessions.functions_entered_in_shuffled_order");
        }
        let mut s = Session::new();
        let mut defs_ok = true;
        for t in defs.iter() {
            if let Answer::Error(m) = s.line(t) {
                defs_ok = false;
                out.count("sessions.definition_rejected");
                out.seen("definition_errors", &trunc(&m.split(": ").last().unwrap_or("").chars().filter(|c| !c.is_ascii_digit()).collect::<String>(), 50));
                break;
            }
        }
        if !defs_ok {
            out.end(&id);
            continue;
        }
        let wrapper_defined = !matches!(s.line(&format!("(defun-inline cx_main {} {})", params, body)), Answer::Error(_));
        let mut ok = true;
        let mut judged = 0;
        // A. closed expressions: the parameters bound to quoted argument values
        for a in case.args.iter().take(cfg.pick(3, 5)) {
            if !fits(&case.prog.params, a) {
                continue;
            }
            let mut bs = vec![];
            bind(&case.prog.params, a, &mut bs);
            let closed = if bs.is_empty() { body.clone() } else { format!("(let ({}) {})", bs.iter().map(|(n, v)| format!("({} (q . {}))", n, render_data(v))).collect::<Vec<_>>().join(" "), body) };
            let want = consensus_run_cap(&original, a, 500_000_000);
            // two closed forms: the parameters bound by a let around the expression, and by a call of an inline wrapper function
            let forms: Vec<(&str, String)> = match (wrapper_defined, wrapper_call(&case.prog.params, a)) {
                (true, Some(c)) => vec![("wrapper", c), ("let", closed.clone())],
                _ => vec![("let", closed.clone())],
            };
            let mut wrapper_ok = false;
            for (form, closed) in forms.iter() {
            out.count("evaluations");
            match s.line(closed) {
                Answer::Constant(v) => {
                    out.count("closed.reduced_to_a_constant");
                    out.count(&format!("closed.form.{form}"));
                    match &want {
                        Outcome::Val(w) if *w == v => {
                            judged += 1;
                            out.count("closed.constant_equals_compiled_result");
                            if *form == "wrapper" {
                                wrapper_ok = true;
                            }
                        }
                        Outcome::Val(w) => {
                            ok = false;
                            // listed finding: a let / assign bound variable used in a branch of a conditional is compiled outside its
                            // scope (com) and becomes the string of its (renamed) name.  Counterfactual: the same definitions and
                            // expression with every let form lambda-lifted into inline functions; attributed only when that session
                            // returns exactly what the compiled program returns.
                            // Further exact evidence of the same finding: the answer contains an atom spelling a generated name
                            // (x_$_85), or the let form is wrong where the wrapper form (same expression, parameters bound by a function
                            // application instead of a let) was right for the same arguments.
                            let leaked_name = has_gensym_atom(&v);
                            let exact = leaked_name || (*form == "let" && wrapper_ok) || twin_answer(&case, d, a).as_ref() == Some(w);
                            // Where the let-free twin cannot be evaluated (the evaluator gives up on it) the finding is attributed by shape:
                            // the program has a conditional branch that mentions a let / assign bound name (for the let form: a parameter).
                            let extra: Vec<String> = if *form == "let" { bs.iter().map(|x| x.0.clone()).collect() } else { vec![] };
                            let by_shape = !exact && twin_answer(&case, d, a).is_none() && branch_mentions_a_let_bound_name(&case.prog, &extra);
                            if by_shape {
                                out.count("closed.finding_attributed_by_shape_twin_not_evaluable");
                            }
                            let sig = if exact || by_shape { Some("repl:let-bound-variable-in-conditional-branch-becomes-its-name") } else { None };
                            out.violation(json!({"kind":"repl_constant_differs_from_the_compiled_program","engine":"c16","sig":sig,"form":form,"case":id,"definitions":defs,"expression":trunc(closed,1500),"repl":v.show(),"compiled_program_returns":w.show(),"args":a.show()}));
                        }
                        Outcome::CostCap => out.inconclusive("costcap", json!({"case": id})),
                        _ => out.count("closed.compiled_program_fails_no_claim"),
                    }
                }
                Answer::Residual(_, _) => out.count("closed.not_reduced_to_a_constant"),
                Answer::Error(m) => {
                    if m.starts_with("PANIC") {
                        ok = false;
                        out.violation(json!({"kind":"repl_panicked","engine":"c16","case":id,"definitions":defs,"expression":trunc(&closed,1500),"panic":m}));
                    } else {
                        out.count("closed.evaluator_stopped_with_an_error");
                    }
                }
                Answer::Nothing => out.count("closed.no_answer"),
            }
            }
        }
        // C. partly open: through the wrapper, some parameters quoted values, the others free variables (what a partial
        //    evaluator is for: literal and symbolic arguments side by side); the residual is compiled over the free ones
        if wrapper_defined {
            let (items, tail) = case.prog.params.top_items();
            let simple: Vec<usize> = items.iter().enumerate().filter(|(_, p)| matches!(p, Pat::Var(_, _))).map(|(i, _)| i).collect();
            for a in case.args.iter().filter(|a| fits(&case.prog.params, a)).take(2) {
                if simple.is_empty() || items.len() < 2 || tail.is_some() {
                    break;
                }
                let Some(av) = a.proper_list() else { break };
                if av.len() != items.len() {
                    break;
                }
                // a non-empty proper subset of the plain parameters stays free
                let mut free: Vec<usize> = simple.iter().cloned().filter(|_| rng.chance(1, 2)).collect();
                if free.is_empty() {
                    free.push(simple[rng.below(simple.len())]);
                }
                if free.len() == items.len() {
                    free.pop();
                }
                let name_of = |i: usize| match items[i] {
                    Pat::Var(n, _) => n.clone(),
                    _ => unreachable!(),
                };
                let call = format!("(cx_main {})", (0..items.len()).map(|i| if free.contains(&i) { name_of(i) } else { format!("(q . {})", render_data(&av[i])) }).collect::<Vec<_>>().join(" "));
                let free_names: Vec<String> = free.iter().map(|i| name_of(*i)).collect();
                let want = consensus_run_cap(&original, a, 500_000_000);
                let Outcome::Val(w) = &want else { continue };
                out.count("evaluations");
                let free_args = V::list(&free.iter().map(|i| av[*i].clone()).collect::<Vec<_>>());
                let judge_shape = |out: &mut Out| -> Option<&'static str> {
                    // the listed findings, by the shape they need: a conditional branch mentioning a free parameter / a let-bound name
                    if cond_free {
                        return None;
                    }
                    if name_in_branch(&case.prog.body, &free_names) {
                        Some("repl:free-variable-in-conditional-branch-is-quoted-as-its-name")
                    } else if branch_mentions_a_let_bound_name(&case.prog, &[]) {
                        out.count("partly_open.finding_attributed_by_shape");
                        Some("repl:let-bound-variable-in-conditional-branch-becomes-its-name")
                    } else {
                        None
                    }
                };
                match s.line(&call) {
                    Answer::Constant(v) => {
                        out.count("partly_open.reduced_to_a_constant");
                        if v == *w {
                            judged += 1;
                        } else {
                            ok = false;
                            let mut sig = if has_gensym_atom(&v) { Some("repl:let-bound-variable-in-conditional-branch-becomes-its-name") } else { judge_shape(&mut out) };
                            if sig.is_none() {
                                // listed finding: with a free variable among the arguments the evaluator can fold the call to a wrong
                                // constant (observed: ()) when the taken branch of a statically decided conditional still needs primitives
                                // run.  Attributed only when the very same call with the free variables replaced by their quoted values
                                // gives exactly the compiled program's result.
                                let closed_ok = wrapper_call(&case.prog.params, a).map(|c| matches!(s.line(&c), Answer::Constant(x) if x == *w)).unwrap_or(false);
                                if closed_ok {
                                    sig = Some("repl:call-with-a-free-argument-folds-to-a-wrong-constant");
                                }
                            }
                            out.violation(json!({"kind":"repl_constant_differs_from_the_compiled_program","engine":"c16","sig":sig,"form":"partly_open","case":id,"definitions":defs,"wrapper":trunc(&format!("(defun-inline cx_main {} {})", params, body),1200),"expression":trunc(&call,600),"repl":v.show(),"compiled_program_returns":w.show(),"args":a.show()}));
                        }
                    }
                    Answer::Residual(r, rs) => {
                        out.count("partly_open.residual_returned");
                        match compile_with_body(&program_text(&format!("({})", free_names.join(" ")), &defs, "()"), rs) {
                            Ok(rp) => {
                                let got = consensus_run_cap(&rp, &free_args, 2_000_000_000);
                                match &got {
                                    Outcome::Val(g) if g == w => {
                                        judged += 1;
                                        out.count("partly_open.residual_agrees_with_the_original");
                                    }
                                    Outcome::CostCap => out.inconclusive("costcap", json!({"case": id})),
                                    _ => {
                                        ok = false;
                                        let mut sig = judge_shape(&mut out);
                                        if sig.is_none() && (free_names.iter().any(|n| r.contains(&format!("{n}_$_"))) || (r.contains("(lambda") && r.contains("_$_"))) {
                                            // listed finding: a free variable captured by a lambda comes back renamed (A1_$_362566) in the residual,
                                            // a name that is bound nowhere
                                            sig = Some("repl:free-variable-captured-by-a-lambda-is-renamed-in-the-residual");
                                        }
                                        if sig.is_none() && !cond_free {
                                            // listed finding repl-free-argument-wrong-constant inside a residual: a statically decided conditional's
                                            // branch folded to () because the environment holds a free variable.  Attributed only for programs
                                            // that have conditionals and only when the same call with the free variables replaced by their
                                            // values gives exactly the compiled program's result.
                                            let closed_ok = wrapper_call(&case.prog.params, a).map(|c| matches!(s.line(&c), Answer::Constant(x) if x == *w)).unwrap_or(false);
                                            if closed_ok {
                                                sig = Some("repl:call-with-a-free-argument-folds-to-a-wrong-constant");
                                            }
                                        }
                                        out.violation(json!({"kind":"residual_program_disagrees_with_the_original","engine":"c16","sig":sig,"form":"partly_open","case":id,"definitions":defs,"wrapper":trunc(&format!("(defun-inline cx_main {} {})", params, body),1200),"expression":trunc(&call,600),"residual":trunc(&r,1000),"free":free_names,"args":a.show(),"original_returns":w.show(),"residual_returns":got.show()}));
                                    }
                                }
                            }
                            Err(m) => {
                                ok = false;
                                let sig = judge_shape(&mut out);
                                out.violation(json!({"kind":"residual_does_not_compile","engine":"c16","sig":sig,"form":"partly_open","case":id,"definitions":defs,"expression":trunc(&call,600),"residual":trunc(&r,1000),"error":trunc(&m,300)}));
                            }
                        }
                    }
                    Answer::Error(m) => {
                        if m.starts_with("PANIC") {
                            ok = false;
                            out.violation(json!({"kind":"repl_panicked","engine":"c16","case":id,"definitions":defs,"expression":trunc(&call,600),"panic":m}));
                        } else {
                            out.count("partly_open.evaluator_stopped_with_an_error");
                        }
                    }
                    Answer::Nothing => {}
                }
            }
        }
        // B. open expression: the parameters stay free; the residual is compiled in their scope
        out.count("evaluations");
        match s.line(&body) {
            Answer::Constant(v) => {
                // the expression does not depend on its free variables
                out.count("open.reduced_to_a_constant");
                for a in case.args.iter().filter(|a| fits(&case.prog.params, a)).take(3) {
                    if let Outcome::Val(w) = consensus_run_cap(&original, a, 500_000_000) {
                        if w != v {
                            ok = false;
                            // same listed finding as for residuals: the free variables in conditional branches were taken as strings,
                            // so the whole expression folded to a constant.  Attributed only when a branch really mentions a parameter.
                            let mut vars = vec![];
                            case.prog.params.vars(&mut vars);
                            let names: Vec<String> = vars.into_iter().map(|x| x.0).collect();
                            let _ = names;
                            let sig = if branch_mentions_a_variable(&case.prog) || has_gensym_atom(&v) {
                                Some("repl:free-variable-in-conditional-branch-is-quoted-as-its-name")
                            } else if branch_mentions_a_let_bound_name(&case.prog, &[]) {
                                // the expression itself is closed under its branches, but a helper it calls has the let shape
                                Some("repl:let-bound-variable-in-conditional-branch-becomes-its-name")
                            } else {
                                None
                            };
                            out.violation(json!({"kind":"repl_constant_differs_from_the_compiled_program","engine":"c16","sig":sig,"case":id,"definitions":defs,"expression":trunc(&body,1500),"repl":v.show(),"compiled_program_returns":w.show(),"args":a.show(),"open":true}));
                        } else {
                            judged += 1;
                        }
                    }
                }
            }
            Answer::Residual(r, rs) => {
                out.count("open.residual_returned");
                match compile_with_body(&program_text(&params, &defs, "()"), rs) {
                    Ok(rp) => {
                        out.count("open.residual_compiles");
                        for a in case.args.iter().filter(|a| fits(&case.prog.params, a)) {
                            let want = consensus_run_cap(&original, a, 500_000_000);
                            if let Outcome::Val(w) = &want {
                                let got = consensus_run_cap(&rp, a, 2_000_000_000);
                                match &got {
                                    Outcome::Val(g) if g == w => {
                                        judged += 1;
                                        out.count("open.residual_agrees_with_the_original");
                                    }
                                    Outcome::CostCap => out.inconclusive("costcap", json!({"case": id})),
                                    _ => {
                                        ok = false;
                                        // listed finding: a free variable inside a branch of a conditional is compiled (com) where it is
                                        // not bound, so the residual holds the variable's NAME as quoted data: (1 . A4)
                                        let mut vars = vec![];
                                        case.prog.params.vars(&mut vars);
                                        let quoted_name = vars.iter().any(|(n, _)| r.contains(&format!("1 . {n})")) || r.contains(&format!("1 . {n}_$_")) || r.contains(&format!("q . {n})")) || r.contains(&format!("q . {n}_$_")));
                                        // … and the let finding in its open guise: the residual quotes a renamed let variable, (1 . v12_$_189323)
                                        let quoted_gensym = {
                                            let b = r.as_bytes();
                                            let mut found = false;
                                            let mut i = 0;
                                            while let Some(p) = r[i..].find("_$_") {
                                                let at = i + p;
                                                // walk back over the name to the " . " that makes it a quoted atom
                                                let mut j = at;
                                                while j > 0 && (b[j - 1].is_ascii_alphanumeric() || b[j - 1] == b'_') {
                                                    j -= 1;
                                                }
                                                if j >= 4 && (&r[j - 4..j] == "1 . " || &r[j - 4..j] == "q . ") {
                                                    found = true;
                                                    break;
                                                }
                                                i = at + 3;
                                            }
                                            found
                                        };
                                        let quoted_name = quoted_name || branch_mentions_a_variable(&case.prog);
                                        // the expression's own branches may be clean while a helper it calls has the let shape
                                        let helper_has_let_shape = !quoted_name && !quoted_gensym && branch_mentions_a_let_bound_name(&case.prog, &[]);
                                        let lambda_keeps_generated_names = r.contains("(lambda") && r.contains("_$_");
                                        let sig = if lambda_keeps_generated_names && !quoted_name {
                                            // listed finding: a lambda left in the residual keeps generated names for its captures / parameters
                                            Some("repl:free-variable-captured-by-a-lambda-is-renamed-in-the-residual")
                                        } else if quoted_name { Some("repl:free-variable-in-conditional-branch-is-quoted-as-its-name") } else if helper_has_let_shape { Some("repl:let-bound-variable-in-conditional-branch-becomes-its-name") } else if quoted_gensym { Some("repl:let-bound-variable-in-conditional-branch-becomes-its-name") } else { None };
                                        out.violation(json!({"kind":"residual_program_disagrees_with_the_original","engine":"c16","sig":sig,"case":id,"definitions":defs,"expression":trunc(&body,1200),"residual":trunc(&r,1200),"args":a.show(),"original_returns":w.show(),"residual_returns":got.show()}));
                                    }
                                }
                            }
                        }
                    }
                    Err(m) => {
                        // only a residual of a program that returns something is claimed
                        if case.args.iter().any(|a| fits(&case.prog.params, a) && consensus_run_cap(&original, a, 500_000_000).is_val()) {
                            ok = false;
                            out.violation(json!({"kind":"residual_does_not_compile","engine":"c16","case":id,"definitions":defs,"expression":trunc(&body,1200),"residual":trunc(&r,1200),"error":trunc(&m,300)}));
                        }
                    }
                }
            }
            Answer::Error(m) => {
                if m.starts_with("PANIC") {
                    ok = false;
                    out.violation(json!({"kind":"repl_panicked","engine":"c16","case":id,"definitions":defs,"expression":trunc(&body,1500),"panic":m}));
                } else {
                    out.count("open.evaluator_stopped_with_an_error");
                }
            }
            Answer::Nothing => out.count("open.no_answer"),
        }
        out.end(&id);
        if ok && judged > 0 {
            out.nontrivial(fnv_s(&format!("{}|{}", defs.join("|"), body)));
            if out.samples.len() < 3 {
                out.sample(json!({"case": id, "definitions": defs.len(), "expression": trunc(&body, 300), "comparisons": judged}));
            }
        }
    }
    let bad = out.get("violations");
    out.finish(cfg);
    if bad > 0 { 1 } else { 0 }
}
